// mutgen: mutant schemata for one Go file of the repository (development diagnostic, never a verdict).
//
//	mutgen -in file.go -out mutated.go -list mutants.json -first N [-yacc] [-only regexp] [-funcs regexp] [-drop id,id,…] [-ops sdl,ror,idx,k1]
//
// Every mutant is guarded by verifhook.M(id) (active only when VERIF_MUTANT=id), so that one build serves the whole
// campaign. Only insertions are made; the rest of the file is byte-identical.
//
//	sdl  statement deletion: expression statements, plain assignments, ++/--        if !verifhook.M(id) { stmt }
//	ror  relational boundary / negation: < <=, <= <, > >=, >= >, == !=, != ==      operands without calls (len/cap allowed)
//	idx  yyDollar[k].f -> yyDollar[j].f  (j: the next other index used with the same field in the same action)
//	k1   integer literal operand of + or - increased by one
package main

import (
	"encoding/json"
	"flag"
	"fmt"
	"go/ast"
	"go/parser"
	"go/token"
	"os"
	"regexp"
	"sort"
	"strconv"
	"strings"
)

type mutant struct {
	ID   int    `json:"id"`
	File string `json:"file"`
	Line int    `json:"line"`
	Op   string `json:"op"`
	Func string `json:"func"`
	Text string `json:"text"`
	Desc string `json:"desc"`
}

type ins struct {
	off   int
	end   bool // suffix insertion (belongs to the text before off)
	depth int
	seq   int
	s     string
}

// clause: the init and post statements of for/if/switch headers
var clause = map[ast.Stmt]bool{}

func collectClauses(f ast.Node) {
	ast.Inspect(f, func(n ast.Node) bool {
		switch s := n.(type) {
		case *ast.ForStmt:
			if s.Init != nil {
				clause[s.Init] = true
			}
			if s.Post != nil {
				clause[s.Post] = true
			}
		case *ast.IfStmt:
			if s.Init != nil {
				clause[s.Init] = true
			}
		case *ast.SwitchStmt:
			if s.Init != nil {
				clause[s.Init] = true
			}
		case *ast.TypeSwitchStmt:
			if s.Init != nil {
				clause[s.Init] = true
			}
		}
		return true
	})
}

func main() {
	in := flag.String("in", "", "")
	out := flag.String("out", "", "")
	list := flag.String("list", "", "")
	first := flag.Int("first", 1, "")
	yacc := flag.Bool("yacc", false, "")
	only := flag.String("only", "", "")
	funcs := flag.String("funcs", "", "")
	drop := flag.String("drop", "", "")
	ops := flag.String("ops", "sdl,ror,idx,k1", "")
	name := flag.String("name", "", "")
	flag.Parse()
	src, err := os.ReadFile(*in)
	if err != nil {
		panic(err)
	}
	fset := token.NewFileSet()
	f, err := parser.ParseFile(fset, *in, src, parser.ParseComments)
	if err != nil {
		panic(err)
	}
	collectClauses(f)
	var onlyRe, funcRe *regexp.Regexp
	if *only != "" {
		onlyRe = regexp.MustCompile(*only)
	}
	if *funcs != "" {
		funcRe = regexp.MustCompile(*funcs)
	}
	dropped := map[int]bool{}
	for _, s := range strings.Split(*drop, ",") {
		if n, err := strconv.Atoi(s); err == nil {
			dropped[n] = true
		}
	}
	op := map[string]bool{}
	for _, o := range strings.Split(*ops, ",") {
		op[o] = true
	}
	off := func(p token.Pos) int { return fset.Position(p).Offset }
	text := func(n ast.Node) string { return string(src[off(n.Pos()):off(n.End())]) }
	var muts []mutant
	var inss []ins
	next := *first
	seq := 0
	add := func(n ast.Node, o, fn, desc string, depth int, pre, suf string, at ast.Node) bool {
		id := next
		next++
		if dropped[id] {
			return false
		}
		t := text(n)
		if len(t) > 160 {
			t = t[:160] + "…"
		}
		muts = append(muts, mutant{ID: id, File: *name, Line: fset.Position(n.Pos()).Line, Op: o, Func: fn, Text: t, Desc: desc})
		pre = strings.ReplaceAll(pre, "#", strconv.Itoa(id))
		suf = strings.ReplaceAll(suf, "#", strconv.Itoa(id))
		seq++
		inss = append(inss, ins{off: off(at.Pos()), depth: depth, seq: seq, s: pre}, ins{off: off(at.End()), end: true, depth: depth, seq: seq, s: suf})
		return true
	}
	pure := func(e ast.Expr) bool {
		ok := true
		ast.Inspect(e, func(n ast.Node) bool {
			switch c := n.(type) {
			case *ast.CallExpr:
				if id, isID := c.Fun.(*ast.Ident); !isID || (id.Name != "len" && id.Name != "cap" && id.Name != "string" && id.Name != "int") {
					ok = false
				}
			case *ast.FuncLit, *ast.UnaryExpr:
				if u, isU := n.(*ast.UnaryExpr); isU && u.Op != token.ARROW {
					return true
				}
				ok = false
			}
			return ok
		})
		return ok
	}
	for _, d := range f.Decls {
		fd, isF := d.(*ast.FuncDecl)
		if !isF || fd.Body == nil {
			continue
		}
		fn := fd.Name.Name
		if fd.Recv != nil && len(fd.Recv.List) > 0 {
			fn = strings.TrimPrefix(text(fd.Recv.List[0].Type), "*") + "." + fn
		}
		if funcRe != nil && !funcRe.MatchString(fn) {
			continue
		}
		// stack-based walk to know depth and (for -yacc) whether we are inside a reduce action
		var stack []ast.Node
		inAction := 0
		var actionIdx map[string][]int // field -> indices used in the current action
		isAction := func(cc *ast.CaseClause) bool {
			if len(cc.Body) == 0 {
				return false
			}
			as, ok := cc.Body[0].(*ast.AssignStmt)
			return ok && len(as.Lhs) == 1 && text(as.Lhs[0]) == "yyDollar"
		}
		caseName := ""
		ast.Inspect(fd.Body, func(n ast.Node) bool {
			if n == nil {
				top := stack[len(stack)-1]
				stack = stack[:len(stack)-1]
				if cc, ok := top.(*ast.CaseClause); ok && isAction(cc) {
					inAction--
				}
				return true
			}
			stack = append(stack, n)
			depth := len(stack)
			if cc, ok := n.(*ast.CaseClause); ok && isAction(cc) {
				inAction++
				caseName = fn
				if len(cc.List) > 0 {
					caseName = fn + " case " + text(cc.List[0])
				}
				actionIdx = map[string][]int{}
				ast.Inspect(cc, func(m ast.Node) bool {
					if se, ok := m.(*ast.SelectorExpr); ok {
						if ix, ok := se.X.(*ast.IndexExpr); ok && text(ix.X) == "yyDollar" {
							if bl, ok := ix.Index.(*ast.BasicLit); ok {
								k, _ := strconv.Atoi(bl.Value)
								have := false
								for _, x := range actionIdx[se.Sel.Name] {
									if x == k {
										have = true
									}
								}
								if !have {
									actionIdx[se.Sel.Name] = append(actionIdx[se.Sel.Name], k)
								}
							}
						}
					}
					return true
				})
				for k := range actionIdx {
					sort.Ints(actionIdx[k])
				}
			}
			if *yacc && inAction == 0 {
				return true
			}
			where := fn
			if inAction > 0 {
				where = caseName
			}
			if onlyRe != nil {
				if st, ok := n.(ast.Stmt); ok && !onlyRe.MatchString(text(st)) {
					// statements that do not match are not mutated, but their children are still visited
					if _, isBlockish := n.(*ast.BlockStmt); !isBlockish {
						switch n.(type) {
						case *ast.ExprStmt, *ast.AssignStmt, *ast.IncDecStmt:
							return true
						}
					}
				}
			}
			match := func(n ast.Node) bool { return onlyRe == nil || onlyRe.MatchString(text(n)) }
			if st, ok := n.(ast.Stmt); ok && clause[st] {
				return true // init/post statement of a for, if or switch header: cannot be wrapped in an if
			}
			switch s := n.(type) {
			case *ast.ExprStmt:
				if op["sdl"] && match(s) {
					if _, isCall := s.X.(*ast.CallExpr); isCall {
						add(s, "sdl", where, "statement deleted", depth, "if !verifhook.M(#) { ", " }", s)
					}
				}
			case *ast.AssignStmt:
				if op["sdl"] && s.Tok != token.DEFINE && match(s) && text(s.Lhs[0]) != "yyDollar" && text(s.Lhs[0]) != "_" {
					add(s, "sdl", where, "assignment deleted", depth, "if !verifhook.M(#) { ", " }", s)
				}
			case *ast.IncDecStmt:
				if op["sdl"] && match(s) {
					add(s, "sdl", where, "inc/dec deleted", depth, "if !verifhook.M(#) { ", " }", s)
				}
			case *ast.BinaryExpr:
				if op["ror"] && pure(s.X) && pure(s.Y) {
					a, b := text(s.X), text(s.Y)
					isNil := a == "nil" || b == "nil"
					switch s.Op {
					case token.LSS:
						add(s, "ror", where, "< -> <=", depth, "(", " || (verifhook.M(#) && "+a+" == "+b+"))", s)
					case token.GTR:
						add(s, "ror", where, "> -> >=", depth, "(", " || (verifhook.M(#) && "+a+" == "+b+"))", s)
					case token.LEQ:
						add(s, "ror", where, "<= -> <", depth, "(", " && !(verifhook.M(#) && "+a+" == "+b+"))", s)
					case token.GEQ:
						add(s, "ror", where, ">= -> >", depth, "(", " && !(verifhook.M(#) && "+a+" == "+b+"))", s)
					case token.EQL:
						_ = isNil
						add(s, "ror", where, "== -> !=", depth, "((", ") != verifhook.M(#))", s)
					case token.NEQ:
						add(s, "ror", where, "!= -> ==", depth, "((", ") != verifhook.M(#))", s)
					}
				}
				if op["k1"] && (s.Op == token.ADD || s.Op == token.SUB) {
					if bl, ok := s.Y.(*ast.BasicLit); ok && bl.Kind == token.INT {
						add(s, "k1", where, "constant "+bl.Value+" -> "+bl.Value+"+1", depth, "(", " + verifhook.MK(#))", bl)
					}
				}
			case *ast.SelectorExpr:
				if op["idx"] && inAction > 0 {
					if ix, ok := s.X.(*ast.IndexExpr); ok && text(ix.X) == "yyDollar" {
						if bl, ok := ix.Index.(*ast.BasicLit); ok {
							k, _ := strconv.Atoi(bl.Value)
							cands := actionIdx[s.Sel.Name]
							if len(cands) > 1 {
								j := cands[0]
								for i, x := range cands {
									if x == k {
										j = cands[(i+1)%len(cands)]
									}
								}
								add(s, "idx", where, fmt.Sprintf("yyDollar[%d].%s -> yyDollar[%d].%s", k, s.Sel.Name, j, s.Sel.Name), depth, "verifhook.MI(#, ", fmt.Sprintf(", %d)", j), bl)
							}
						}
					}
				}
			}
			return true
		})
	}
	// apply insertions
	sort.SliceStable(inss, func(i, j int) bool {
		a, b := inss[i], inss[j]
		if a.off != b.off {
			return a.off < b.off
		}
		if a.end != b.end {
			return a.end // suffixes first
		}
		if a.end {
			if a.depth != b.depth {
				return a.depth > b.depth // inner suffix first
			}
			return a.seq > b.seq
		}
		if a.depth != b.depth {
			return a.depth < b.depth // outer prefix first
		}
		return a.seq < b.seq
	})
	var sb strings.Builder
	last := 0
	for _, x := range inss {
		sb.Write(src[last:x.off])
		sb.WriteString(x.s)
		last = x.off
	}
	sb.Write(src[last:])
	res := sb.String()
	imp := "\"github.com/z7zmey/php-parser/internal/verifhook\""
	if len(muts) > 0 && !strings.Contains(res, imp) {
		// add the import after the package clause
		pe := off(f.Name.End())
		res = res[:pe] + "\nimport " + imp + "\n" + res[pe:]
	}
	if err := os.WriteFile(*out, []byte(res), 0o644); err != nil {
		panic(err)
	}
	b, _ := json.MarshalIndent(muts, "", " ")
	os.WriteFile(*list, b, 0o644)
	fmt.Printf("%d mutants (ids %d..%d)\n", len(muts), *first, next-1)
}
