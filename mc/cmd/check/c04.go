package main

import (
	"strings"

	"github.com/z7zmey/php-parser/pkg/version"
	"github.com/z7zmey/php-parser/verifmc/core"
	"github.com/z7zmey/php-parser/verifmc/corpus"
	"github.com/z7zmey/php-parser/verifmc/drive"
	"github.com/z7zmey/php-parser/verifmc/ebytes"
	"github.com/z7zmey/php-parser/verifmc/oracle"
)

// C04 — tokens carry exact text, offsets, lines and tile the source.

func c04One(c *core.Ctx, cs srcCase) {
	setBlock(&cs)
	res := drive.Parse(cs.Src, parseVer(cs.Ver), true)
	disturb()
	if !res.OK() {
		c.Stat("crashed_or_hung(C01 domain)", 1)
		return
	}
	if res.Root == nil {
		c.Stat("no_tree_returned", 1)
		return
	}
	clean := res.NErr() == 0
	if clean {
		c.Stat("trees_without_errors(tiling+classification+leaf values checked)", 1)
	} else {
		c.Stat("trees_with_errors(text/offset/line/order checked)", 1)
	}
	c.NontrivialH(core.Hash(cs.Ver + string(cs.Src)))
	report(c, oracle.Tokens(cs.Src, res.Root, clean), cs)
}

var c04Bytes func(c *core.Ctx, one func(c *core.Ctx, cs srcCase)) // E-bytes slice, set in ebytes.go

func c04Run(c *core.Ctx) {
	level := 2
	if c.Thorough() {
		level = 6
	}
	for _, fam := range []string{"php7", "php5"} {
		f := corpus.MustFam(fam)
		for _, it := range f.Items(level) {
			if !it.ScanOK {
				continue
			}
			deep := true
			forDeviations(it, deep && it.Valid, deep && it.Valid, func(src, why string) {
				for vi, v := range famVersions[fam] {
					if vi > 0 && why != it.Why {
						continue
					}
					if !c.Next() {
						continue
					}
					cs := mkCase(src, v, why)
					c04One(c, cs)
					c.Sample(cs)
				}
			})
			if c.Thorough() && it.Valid && strings.Count(it.Why, "pos") <= 1 && strings.Count(it.Why, "pair") == 0 {
				forTwoDeviations(it, func(src, why string) {
					if c.Next() {
						c04One(c, mkCase(src, f.V, why))
					}
				})
			}
		}
		wideItems(f, false, func(it *corpus.Item, src, why string) {
			if c.Next() {
				c04One(c, mkCase(src, f.V, why))
			}
		})
		for _, big := range bigPrograms(f, 2500) {
			for _, nl := range []string{"\n", "\r\n", "\r"} {
				if !c.Next() {
					continue
				}
				cs := mkCase(strings.Replace(big, "\n", nl, -1), f.V, "concatenated corpus statements, production pool blocks")
				cs.Block = drive.ProdBlock
				c04One(c, cs)
				c.Stat("large_programs_production_pools", 1)
			}
		}
	}
	for _, cs := range deepCases(c) {
		if c.Next() {
			c04One(c, cs)
		}
	}
	for _, src := range corpus.Specials() {
		for _, v := range []*version.Version{drive.V74, drive.V72, drive.V56} {
			if !c.Next() {
				continue
			}
			c04One(c, mkCase(src, v, "special head/body/tail or literal form"))
		}
	}
	for _, src := range chainPrograms(c) {
		for _, v := range []*version.Version{drive.V74, drive.V56} {
			if c.Next() {
				c04One(c, mkCase(src, v, "postfix chain"))
			}
		}
	}
	// a lexical construct that is never closed, with 40 lines of tokens behind its opener: the scanner has counted all the
	// lines while looking ahead, every token that follows lies far behind the last known line start
	for _, pre := range []string{"<?php /*", "<?php '", "<?php \"", "<?php `", "<?php <<<A\n", "<?php <<<'A'\n", "<?php /**"} {
		for _, nl := range []string{"\n", "\r\n", "\r"} {
			for _, v := range []*version.Version{drive.V74, drive.V56} {
				if c.Next() {
					c04One(c, mkCase(pre+strings.Repeat(nl+"$a;", 40), v, "unclosed lexical construct with many lines behind it"))
				}
			}
		}
	}
	// multi-line regions: every place where line terminators are part of one token (strings, heredoc and nowdoc bodies,
	// comments, inline HTML, the data behind __halt_compiler();) filled with every sequence of <= 3 (thorough 4) line
	// terminators out of LF, CRLF and a lone CR, with and without a terminator at either end; a token follows on a later line
	maxT := 3
	if c.Thorough() {
		maxT = 4
	}
	for _, tpl := range c04Regions {
		for _, r := range c04RegionTexts(maxT) {
			for _, v := range []*version.Version{drive.V74, drive.V72, drive.V56} {
				if !c.Next() {
					continue
				}
				c.Stat("multi_line_regions", 1)
				c04One(c, mkCase(strings.Replace(tpl, "R", r, 1), v, "multi-line region with a mix of line terminators"))
			}
		}
	}
	if c04Bytes != nil {
		c04Bytes(c, c04One)
	}
}

// R stands for the region
var c04Regions = []string{
	"<?php $a = 'R'; $b;", "<?php $a = \"R\"; $b;", "<?php $a = \"x $v R {$w} R\"; $b;", "<?php $a = `R`; $b;",
	"<?php $a = <<<A\nR\nA;\n$b;", "<?php $a = <<<'A'\nR\nA;\n$b;", "<?php $a = <<<A\n$v R\nA;\n$b;",
	"<?php /*R*/ $b;", "<?php /** R*/ $b;", "<?php $a /*R*/ ; $b;",
	"R<?php $b;", "<?php $a; ?>R<?php $b;", "<?php $a; ?>R", "<?= $a ?>R<?= $b ?>R",
	"<?php __halt_compiler();R", "<?php $b;\n__halt_compiler();R", "<?php __halt_compiler() ?>R",
}

func c04RegionTexts(maxT int) []string {
	terms := []string{"\n", "\r\n", "\r"}
	var out []string
	var rec func(text string, k int)
	rec = func(text string, k int) {
		if k > 0 {
			out = append(out, text, text+"z")
		}
		if k == maxT {
			return
		}
		for _, t := range terms {
			rec(text+string(rune('p'+k))+t, k+1)
			if k == 0 {
				rec(t, k+1) // the region starts with a terminator
			}
		}
	}
	rec("", 0)
	return out
}

func init() {
	register(&core.Check{
		Prop: "C04", Level: "exploration", Exhaust: true, QuickSecs: 240, ThorSecs: 2400,
		Rule: "E-lr corpus of both grammars (valid and driver-invalid sentences) in baseline layout under every version of the family, unique trivia, every 1-deviation of trivia (LF, CRLF, CR, mixed, all comment styles; thorough: pairs of gaps) and every alternative lexeme (multi-line strings in each terminator style); specials under 7.4/7.2/5.6; large programs in LF/CRLF/CR under production pools; all byte strings of the E-bytes alphabet up to the tier's length (trees returned with errors). " +
			"Oracle on every returned tree: Value == src[StartPos:EndPos], lines == reference line counter (LF, CRLF, lone CR), offsets increasing in print order without overlap; when no error: no gap, whole source covered, free-floating tokens classified as the reference classifier says and followed by their owner, leaf Value == own token text. non-trivial = a tree was returned; distinct by (version, source)",
		Assume: []string{"print order = field order with separator lists interleaved (mc/astx)"},
		Run:    c04Run,
		Replay: replaySrc(c04One),
	})
}

func init() {
	// E-bytes slice: every short byte string from every scanner context — whatever tree comes back (mostly
	// with errors) must still carry exact text, offsets and lines.
	c04Bytes = func(c *core.Ctx, one func(c *core.Ctx, cs srcCase)) {
		n := 2
		if c.Thorough() {
			n = 3
		}
		forBytes(c, ebytes.Sigma, n, ebytes.Contexts, func(src string, _ int) {
			one(c, mkCase(src, drive.V74, "E-bytes"))
			one(c, mkCase(src, drive.V56, "E-bytes"))
		})
		forBytes(c, ebytes.Core, n+1, ebytes.Contexts, func(src string, k int) {
			if k > n {
				one(c, mkCase(src, drive.V74, "E-bytes core"))
			}
		})
	}
}
