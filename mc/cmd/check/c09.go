package main

import (
	"encoding/json"
	"fmt"
	"math/big"
	"regexp"
	"strings"

	"github.com/z7zmey/php-parser/pkg/conf"
	"github.com/z7zmey/php-parser/pkg/errors"
	"github.com/z7zmey/php-parser/pkg/parser"
	"github.com/z7zmey/php-parser/pkg/version"
	"github.com/z7zmey/php-parser/verifmc/astx"
	"github.com/z7zmey/php-parser/verifmc/core"
	"github.com/z7zmey/php-parser/verifmc/corpus"
	"github.com/z7zmey/php-parser/verifmc/drive"
	"github.com/z7zmey/php-parser/verifmc/ebytes"
)

// C09 — version selection is exact and only matters where the languages differ.

var c09Nums = []uint64{0, 1, 2, 3, 4, 5, 6, 7, 8, 9, 10, 1<<31 - 1, 1 << 31, 1<<32 - 1, 1 << 32, 1<<63 - 1, 1 << 63, 1<<64 - 1}

func supported(maj, min uint64) bool { return maj == 5 && min <= 6 || maj == 7 && min <= 4 }

type c09Case struct {
	Mode string `json:"mode"` // pair | string | group
	Maj  uint64 `json:"maj,omitempty"`
	Min  uint64 `json:"min,omitempty"`
	Maj2 uint64 `json:"maj2,omitempty"`
	Min2 uint64 `json:"min2,omitempty"`
	Str  string `json:"str,omitempty"`
	Src  []byte `json:"src,omitempty"`
	Text string `json:"text,omitempty"`
}

const c09Probe = "<?php $a = <<<A\n  x\n  A;\nfoo($b ?? 1);\n"

func c09Pair(c *core.Ctx, cs c09Case) {
	setBlock(&srcCase{})
	v := &version.Version{Major: cs.Maj, Minor: cs.Min}
	want := supported(cs.Maj, cs.Min)
	var errs []*errors.Error
	root, err := parser.Parse([]byte(c09Probe), conf.Config{Version: v, ErrorHandlerFunc: func(e *errors.Error) { errs = append(errs, e) }})
	name := fmt.Sprintf("%d.%d", cs.Maj, cs.Min)
	if v.Major != cs.Maj || v.Minor != cs.Min {
		c.Report("Parse modifies the caller's Version", name, cs)
	}
	// the verdict on the version does not depend on what is parsed: the empty input, a blank, a bare open tag
	for _, src := range []string{"", " ", "<?php", "\n"} {
		r2, e2 := parser.Parse([]byte(src), conf.Config{Version: &version.Version{Major: cs.Maj, Minor: cs.Min}})
		if want && (e2 != nil || astx.IsNil(r2)) {
			c.Report("supported version rejected", mkWhat("%s on input %q: err=%v root nil=%v", name, src, e2, astx.IsNil(r2)), cs)
		}
		if !want && (e2 != parser.ErrVersionOutOfRange || !astx.IsNil(r2)) {
			c.Report("unsupported version does not yield ErrVersionOutOfRange", mkWhat("%s on input %q: err=%v, tree=%v", name, src, e2, !astx.IsNil(r2)), cs)
		}
	}
	if want {
		if err != nil || astx.IsNil(root) {
			c.Report("supported version rejected", mkWhat("%s: err=%v root nil=%v", name, err, astx.IsNil(root)), cs)
		}
	} else {
		if err != parser.ErrVersionOutOfRange {
			c.Report("unsupported version does not yield ErrVersionOutOfRange", mkWhat("%s: err=%v", name, err), cs)
		}
		if !astx.IsNil(root) {
			c.Report("unsupported version yields a tree", name, cs)
		}
		if len(errs) > 0 {
			c.Report("unsupported version delivers parse errors", name, cs)
		}
	}
	if got := v.Validate() == nil; got != want {
		c.Report("Validate disagrees with the supported set", mkWhat("%s: Validate ok=%v, supported=%v", name, got, want), cs)
	} else if !want && v.Validate() != version.ErrUnsupportedVer {
		c.Report("Validate returns another error than ErrUnsupportedVer", name, cs)
	}
	// ordering against a second version
	o := &version.Version{Major: cs.Maj2, Minor: cs.Min2}
	ref := 0
	switch {
	case cs.Maj < cs.Maj2, cs.Maj == cs.Maj2 && cs.Min < cs.Min2:
		ref = -1
	case cs.Maj > cs.Maj2, cs.Maj == cs.Maj2 && cs.Min > cs.Min2:
		ref = 1
	}
	if got := v.Compare(o); got != ref {
		c.Report("Compare is not the numeric order of (major, minor)", mkWhat("%s vs %d.%d: %d, want %d", name, cs.Maj2, cs.Min2, got, ref), cs)
	}
	if v.Less(o) != (ref < 0) || v.LessOrEqual(o) != (ref <= 0) || v.Greater(o) != (ref > 0) || v.GreaterOrEqual(o) != (ref >= 0) {
		c.Report("Less/LessOrEqual/Greater/GreaterOrEqual inconsistent with the numeric order", mkWhat("%s vs %d.%d", name, cs.Maj2, cs.Min2), cs)
	}
	if v.InRange(o, o) != (ref == 0) {
		c.Report("InRange(o, o) is not equality", mkWhat("%s vs %d.%d", name, cs.Maj2, cs.Min2), cs)
	}
}

var verRe = regexp.MustCompile(`^([0-9]+)\.([0-9]+)$`)

func c09Str(c *core.Ctx, cs c09Case) {
	v, err := version.New(cs.Str)
	m := verRe.FindStringSubmatch(cs.Str)
	var wantOK bool
	var maj, min uint64
	if m != nil {
		a, _ := new(big.Int).SetString(m[1], 10)
		b, _ := new(big.Int).SetString(m[2], 10)
		if a.IsUint64() && b.IsUint64() {
			wantOK, maj, min = true, a.Uint64(), b.Uint64()
		}
	}
	if wantOK {
		if err != nil || v == nil {
			c.Report("well-formed version string rejected", mkWhat("%q: %v", cs.Str, err), cs)
		} else if v.Major != maj || v.Minor != min {
			c.Report("version string parsed to the wrong pair", mkWhat("%q -> %d.%d", cs.Str, v.Major, v.Minor), cs)
		} else {
			// the value belongs to the caller: changing it must not change what the next call (the caller's or the
			// scanner's own version.New("7.3")) gets for the same string
			v.Major, v.Minor = v.Major+1, v.Minor+7
			if w, err2 := version.New(cs.Str); err2 != nil || w == nil || w.Major != maj || w.Minor != min {
				c.Report("version string parsed to the wrong pair after the caller changed an earlier result", mkWhat("%q -> %+v (%v)", cs.Str, w, err2), cs)
			}
			v.Major, v.Minor = maj, min
		}
	} else if err == nil {
		c.Report("malformed version string accepted", mkWhat("%q -> %+v", cs.Str, v), cs)
	}
}

var c09Groups = [][]*version.Version{
	{drive.V(5, 0), drive.V(5, 1), drive.V(5, 2), drive.V(5, 3), drive.V(5, 4), drive.V(5, 5), drive.V(5, 6)},
	{drive.V(7, 0), drive.V(7, 1), drive.V(7, 2)},
	{drive.V(7, 3), drive.V(7, 4), nil},
}

func c09Group(c *core.Ctx, cs c09Case) {
	setBlock(&srcCase{})
	for gi, g := range c09Groups {
		var ref drive.Result
		for i, v := range g {
			res := drive.Parse(cs.Src, v, true)
			if !res.OK() {
				c.Stat("crashed_or_hung(C01 domain)", 1)
				if i > 0 {
					// the first version of the group parsed this input: a crash under another one is a difference
					grp := []string{"5.0-5.6", "7.0-7.2", "7.3-7.4-omitted"}[gi]
					c.Report("versions of one group: one of them crashes or hangs ("+grp+")", mkWhat("%s parses, %s does not (%s) on %q", verStr(g[0]), verStr(v), panicKey(&res), cs.Src), cs)
				}
				break
			}
			if i == 0 {
				ref = res
				continue
			}
			name := fmt.Sprintf("%s vs %s", verStr(g[0]), verStr(v))
			if v == nil {
				name = "7.3/7.4 vs omitted version"
			}
			grp := []string{"5.0-5.6", "7.0-7.2", "7.3-7.4-omitted"}[gi]
			if errList(ref.Errs) != errList(res.Errs) {
				c.Report("versions of one group report different errors ("+grp+")", mkWhat("%s: %q vs %q on %q", name, errList(ref.Errs), errList(res.Errs), cs.Src), cs)
				continue
			}
			if (ref.Root == nil) != (res.Root == nil) {
				c.Report("versions of one group disagree on returning a tree ("+grp+")", mkWhat("%s on %q", name, cs.Src), cs)
				continue
			}
			if ref.Root != nil {
				if l, w := astx.Diff(ref.Root, res.Root, true); l != "" {
					c.Report("versions of one group give different trees ("+grp+"): "+l, mkWhat("%s: %s on %q", name, w, cs.Src), cs)
				}
			}
			c.Stat("version_pairs_compared", 1)
		}
	}
}

func c09Run(c *core.Ctx) {
	// (1) all pairs of numbers as (major, minor), each compared with a second version
	for _, a := range c09Nums {
		for _, b := range c09Nums {
			for _, o := range [][2]uint64{{a, b}, {b, a}, {7, 3}, {5, 6}, {a, 0}, {0, b}, {a + 1, b}, {a, b + 1}, {a - 1, b}, {a, b - 1}} {
				if !c.Next() {
					continue
				}
				cs := c09Case{Mode: "pair", Maj: a, Min: b, Maj2: o[0], Min2: o[1]}
				c09Pair(c, cs)
				c.Nontrivial(fmt.Sprint(cs))
				c.Sample(cs)
			}
		}
	}
	// (2) version strings: all strings of <= n symbols
	syms := []string{"0", "1", "4", "5", "7", "10", "007", "18446744073709551615", "18446744073709551616", ".", "-", "+", " ", "a", "_", "e", "x", "\n", "٣"}
	n := 3
	if c.Thorough() {
		n = 4
	}
	for k := 0; k <= n; k++ {
		tot := ebytes.Count(len(syms), k)
		for i := 0; i < tot; i++ {
			if !c.Next() {
				continue
			}
			cs := c09Case{Mode: "string", Str: ebytes.Nth(syms, k, i)}
			c09Str(c, cs)
			c.Nontrivial("s" + cs.Str)
		}
	}
	// (3) version groups on inputs
	nb := 2
	if c.Thorough() {
		nb = 3
	}
	forBytes(c, ebytes.Sigma, nb, ebytes.Contexts, func(src string, _ int) {
		c09Group(c, c09Case{Mode: "group", Src: []byte(src), Text: src})
		c.Nontrivial("g" + src)
	})
	for _, fam := range []string{"php7", "php5"} {
		for _, it := range corpus.MustFam(fam).Items(2) {
			if it.ScanOK && c.Next() {
				c09Group(c, c09Case{Mode: "group", Src: []byte(it.Src), Text: it.Src})
				c.Nontrivial("g" + it.Src)
			}
		}
	}
	for _, src := range append(corpus.Specials(), c09Heredocs()...) {
		if c.Next() {
			c09Group(c, c09Case{Mode: "group", Src: []byte(src), Text: src})
			c.Nontrivial("g" + src)
		}
	}
}

// c09Heredocs: heredoc/nowdoc shapes around the 7.3 change (indented closers, closers followed by other
// tokens, label-like text inside the body).
func c09Heredocs() []string {
	var out []string
	opens := []string{"<<<A\n", "<<<'A'\n", "<<<\"A\"\n", "<<< A\r\n"}
	bodies := []string{"", "x\n", "  x\n", "A x\n", " A\n", "xA\n", "x $a\n", "$a\n", "{$a}\n", "x\n\n", "AB\n", "A_\n", "  A1\n"}
	closers := []string{"A", "  A", "\tA", "A;", "A ;", "A)", "A,", "A\n", " A;\n", "A . 'x'", "AB", ""}
	tails := []string{"", ";", "\n;", ";\n$b;"}
	for _, o := range opens {
		for _, b := range bodies {
			for _, cl := range closers {
				for _, t := range tails {
					out = append(out, "<?php $a = "+o+b+cl+t)
					out = append(out, "<?php f("+o+b+cl+", 1);"+t)
				}
			}
		}
	}
	_ = strings.Repeat
	return out
}

func init() {
	register(&core.Check{
		Prop: "C09", Level: "exploration", Exhaust: true, QuickSecs: 300, ThorSecs: 2400,
		Rule: "(1) every (major, minor) over {0..10, 2^31-1, 2^31, 2^32-1, 2^32, 2^63-1, 2^63, 2^64-1}^2 (324 pairs): Parse returns a tree iff the pair is in 5.0-5.6 or 7.0-7.4, else (nil, ErrVersionOutOfRange) and no callback; Validate agrees; the caller's Version is not modified; Compare/Less/…/InRange against ten partner versions equal the numeric order of the pairs. " +
			"(2) every string of <= 3 (thorough 4) symbols over 19 symbols (digits, multi-digit numbers incl. 2^64-1 and 2^64, leading zeros, '.', signs, blanks, letters, a non-ASCII digit): version.New succeeds iff the string is digits '.' digits with both parts < 2^64, and yields those numbers. " +
			"(3) every E-bytes input (<= 2/3 symbols, 15 contexts), every rule/2-path corpus program of both grammars, the specials and 2496 heredoc shapes around the 7.3 change, parsed under every version: within {5.0..5.6}, {7.0..7.2}, {7.3, 7.4, omitted} trees (kinds, values, tokens, positions) and error lists must be identical. non-trivial/distinct = distinct cases",
		Assume: []string{},
		Run:    c09Run,
		Replay: func(c *core.Ctx, raw json.RawMessage) {
			var cs c09Case
			if json.Unmarshal(raw, &cs) != nil {
				return
			}
			switch cs.Mode {
			case "pair":
				c09Pair(c, cs)
			case "string":
				c09Str(c, cs)
			case "group":
				c09Group(c, cs)
			}
		},
	})
}
