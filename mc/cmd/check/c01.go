package main

import (
	"syscall"
	"time"
	"fmt"
	"strings"

	"github.com/z7zmey/php-parser/pkg/version"
	"github.com/z7zmey/php-parser/verifmc/core"
	"github.com/z7zmey/php-parser/verifmc/corpus"
	"github.com/z7zmey/php-parser/verifmc/drive"
	"github.com/z7zmey/php-parser/verifmc/ebytes"
)

// C01 — parsing never crashes, hangs or touches the input buffer.

func c01One(c *core.Ctx, cs srcCase) {
	setBlock(&cs)
	v := parseVer(cs.Ver)
	var res drive.Result
	var wrote, prot bool
	if cs.Aux == "plain" {
		// further configurations of an input already parsed on a write-protected mapping
		res = drive.Parse(cs.Src, v, !cs.NoCB)
	} else {
		res, wrote, prot = drive.ParseProtected(cs.Src, v, !cs.NoCB)
	}
	if prot {
		c.Stat("parses_on_write_protected_input", 1)
	}
	if wrote {
		c.Report("the parser writes into the caller's input buffer (store into a write-protected copy): "+res.PanicLoc, mkWhat("%q, version %s, callback %v", cs.Src, cs.Ver, !cs.NoCB), cs)
		return
	}
	c.Max("max_steps_per_input_byte_x100", int64(res.Steps*100/(len(cs.Src)+1)))
	cfg := cs.Ver
	_ = cfg
	if res.Hang {
		c.Report(hangKey(&res, cs), mkWhat("step budget %d exceeded (%d Lex calls) on %q, version %s, callback %v", drive.Budget(len(cs.Src)), res.LexCalls, cs.Src, cs.Ver, !cs.NoCB), cs)
		return
	}
	if res.Panic != nil {
		c.Report(panicKey(&res), mkWhat("%v on %q, version %s, callback %v", res.Panic, cs.Src, cs.Ver, !cs.NoCB), cs)
		return
	}
	if res.Mutated {
		c.Report("input buffer modified by parser.Parse", mkWhat("%q, version %s", cs.Src, cs.Ver), cs)
	}
	if res.Err != nil {
		c.Report("parser.Parse returns an error for a supported version: "+res.Err.Error(), mkWhat("%q, version %s", cs.Src, cs.Ver), cs)
	}
	if res.NErr() > 0 || res.Root == nil {
		c.Stat("parses_with_errors", 1)
	} else {
		c.Stat("parses_clean", 1)
	}
}

// hangKey: the scanner situation of a hang — which context family the input is in.
func hangKey(res *drive.Result, cs srcCase) string {
	where := "in the parser (Lex called without end)"
	if res.LexCalls*4 < res.Steps {
		where = "inside one Lex call (scanner loop that does not advance)"
	}
	return "hang: step budget exceeded " + where
}

type c01cfg struct {
	v    *version.Version
	nocb bool
}

func c01Configs(all bool) []c01cfg {
	vs := []*version.Version{drive.V74, drive.V56, drive.V72}
	if all {
		vs = nil
		for m := uint64(0); m <= 6; m++ {
			vs = append(vs, drive.V(5, m))
		}
		for m := uint64(0); m <= 4; m++ {
			vs = append(vs, drive.V(7, m))
		}
		vs = append(vs, nil) // Config.Version omitted: the documented default
	}
	var out []c01cfg
	for _, v := range vs {
		out = append(out, c01cfg{v, false}, c01cfg{v, true})
	}
	return out
}

// forBytes enumerates contexts × strings of length <= n over alpha; fn gets the source.
func forBytes(c *core.Ctx, alpha []string, n int, contexts []string, fn func(src string, k int)) {
	for k := 0; k <= n; k++ {
		tot := ebytes.Count(len(alpha), k)
		for _, ctx := range contexts {
			for i := 0; i < tot; i++ {
				if !c.Next() {
					continue
				}
				fn(ctx+ebytes.Nth(alpha, k, i), k)
			}
		}
		if !c.Capped() {
			c.Max("length_completed_over_alphabet_of_"+itoa(len(alpha)), int64(k))
		}
	}
}

func c01Run(c *core.Ctx) {
	// space A: E-bytes
	nFull, nCore, ring := 3, 3, false
	if c.Thorough() {
		nFull, nCore, ring = 3, 4, true
	}
	cfgs := c01Configs(false)
	forBytes(c, ebytes.Sigma, nFull, ebytes.Contexts, func(src string, k int) {
		for ci, cf := range cfgs {
			cs := mkCase(src, cf.v, "E-bytes full alphabet")
			cs.NoCB = cf.nocb
			if ci != 0 && ci != 2 { // 7.4 and 5.6 with callback run write-protected
				cs.Aux = "plain"
			}
			c01One(c, cs)
			c.Stat("ebytes_parses", 1)
		}
		c.NontrivialH(core.Hash(src))
		c.Sample(mkCase(src, drive.V74, "E-bytes"))
	})
	// one more ring under 7.4 and 5.6 with callback (the version/callback axis is explored at the inner rings)
	ringN := nFull
	if ring {
		ringN = nFull + 1
	}
	forBytes(c, ebytes.Sigma, ringN, ebytes.Contexts, func(src string, k int) {
		if k <= nFull {
			return
		}
		for _, v := range []*version.Version{drive.V74} {
			c01One(c, mkCase(src, v, "E-bytes full alphabet, outer ring"))
			c.Stat("ebytes_parses", 1)
		}
		c.NontrivialH(core.Hash(src))
	})
	forBytes(c, ebytes.Core, nCore+1, ebytes.Contexts, func(src string, k int) {
		if k <= nFull {
			return
		}
		for _, v := range []*version.Version{drive.V74, drive.V56} {
			c01One(c, mkCase(src, v, "E-bytes core alphabet"))
			c.Stat("ebytes_parses", 1)
		}
		c.NontrivialH(core.Hash(src))
	})
	// all twelve versions × {callback, nil} on the inner rings
	forBytes(c, ebytes.Core, 2, ebytes.Contexts, func(src string, k int) {
		for _, cf := range c01Configs(true) {
			cs := mkCase(src, cf.v, "E-bytes core alphabet, all versions")
			cs.NoCB = cf.nocb
			cs.Aux = "plain"
			c01One(c, cs)
			c.Stat("ebytes_parses", 1)
		}
	})
	// space B: every byte-prefix of every corpus program
	level := 1
	if c.Thorough() {
		level = 2
	}
	for _, fam := range []string{"php7", "php5"} {
		f := corpus.MustFam(fam)
		items := f.Items(level)
		for _, it := range items {
			if !it.ScanOK {
				continue
			}
			srcs := []string{it.Src}
			if it.R != nil {
				srcs = append(srcs, corpus.Layout(it.R, "\r", "\r"), corpus.Layout(it.R, " /*c*/\r\n", "\n"))
			}
			for _, s := range srcs {
				for cut := 0; cut <= len(s); cut++ {
					if !c.Next() {
						continue
					}
					for _, nocb := range []bool{false, true} {
						cs := mkCase(s[:cut], f.V, "truncated corpus program")
						cs.NoCB = nocb
						c01One(c, cs)
						c.Stat("truncation_parses", 1)
					}
					c.NontrivialH(core.Hash(s[:cut]))
				}
			}
		}
		// driver-invalid corpus sentences and semantic-error programs without callback
		for _, it := range items {
			if it.ScanOK && !it.Valid && c.Next() {
				cs := mkCase(it.Src, f.V, "driver-invalid corpus sentence")
				cs.NoCB = true
				c01One(c, cs)
			}
		}
	}
	for _, fam := range []string{"php7", "php5"} {
		f := corpus.MustFam(fam)
		wideItems(f, false, func(it *corpus.Item, src, why string) {
			if !c.Next() {
				return
			}
			for _, nocb := range []bool{false, true} {
				cs := mkCase(src, f.V, "corpus program: "+why)
				cs.NoCB = nocb
				c01One(c, cs)
			}
			c.NontrivialH(core.Hash(src))
		})
	}
	for _, src := range c01Semantic {
		for _, cf := range c01Configs(true) {
			if !c.Next() {
				continue
			}
			cs := mkCase(src, cf.v, "program with a semantic (grammar-action) error")
			cs.NoCB = cf.nocb
			c01One(c, cs)
		}
	}
	for _, src := range corpus.Specials() {
		for cut := 0; cut <= len(src); cut++ {
			if !c.Next() {
				continue
			}
			for _, v := range []*version.Version{drive.V74, drive.V72, drive.V56, nil} {
				c01One(c, mkCase(src[:cut], v, "truncated special"))
				c.Stat("truncation_parses", 1)
			}
		}
	}
	for _, cs := range deepCases(c) {
		if c.Next() {
			c01One(c, cs)
			cs.NoCB = true
			c01One(c, cs)
		}
	}
	c01Cells(c)
	c01Ladder(c)
	c01TimeLadder(c)
}

// c01Semantic: programs on which grammar actions (not yacc) report errors.
var c01Semantic = []string{
	"<?php foreach ($a as &$k => $v) {}", "<?php foreach ($a as list($x) => $v) {}", "<?php foreach ($a as &$k => &$v): endforeach;",
	"<?php function f() { static $a = 1; global $$b; }", "<?php class A { abstract abstract function f(); public public $a; }",
	"<?php foo(&$a);", "<?php list() = $a;", "<?php use A\\{B, C};", "<?php try {} ", "<?php $a = [1, 2 => &$b, ...$c];",
	"<?php interface I extends A, B { const X = 1; }", "<?php foreach (f() as $k => list($a, $b)) {}", "<?php foreach ([1] as &$k => list($a)) : endforeach;",
	"<?php declare(ticks=1): enddeclare;", "<?php class A { use B { c as protected; d::e insteadof f; } }",
	// a grammar-action error for a construct whose body holds a syntax error (the action runs when the construct is reduced)
	"<?php foreach ($a as &$k => $v) { $x = ; }", "<?php foreach ($a as &$k => $v): $x = ; $y = 1 +; endforeach;",
	"<?php trait T extends A { function f() { 1 +; } }", "<?php trait T implements I { public $a = ; }",
	"<?php trait T extends A implements I { function f() { foreach ($a as &$k => $v) { ) } } }",
}

// c01Ladder — space D: the step count must grow linearly with the input (a deterministic reading of
// "time roughly proportional to the input length").
func c01Ladder(c *core.Ctx) {
	units := []string{"$a = 1 + 2;\n", "/* c */", "// c\n", "\"x $a y\";", "'abc';", "<<<A\nx $a\nA;\n", "f(1, [2]);", "?>h<?php ", "if ($a) { } else { }", "$a->b::c[1]{2};", "\r\n", "((", "[[", "{{", "1+", "\"$a[0]", "`", "<", "\x00"}
	if !c.Thorough() {
		// quick: k up to 256
	}
	for _, u := range units {
		for _, v := range []*version.Version{drive.V74, drive.V56} {
			if !c.Next() {
				continue
			}
			var steps [2]int
			for i, k := range []int{64, 512} {
				src := "<?php " + strings.Repeat(u, k)
				cs := mkCase(src, v, "scaling ladder")
				cs.Block = drive.ProdBlock
				setBlock(&cs)
				res := drive.Parse(cs.Src, v, true)
				if !res.OK() {
					cs.Text = fmt.Sprintf("<?php + %q x %d", u, k)
					if res.Hang {
						c.Report(hangKey(&res, cs), mkWhat("%q repeated %d times", u, k), cs)
					} else {
						c.Report(panicKey(&res), mkWhat("%v on %q repeated %d times", res.Panic, u, k), cs)
					}
					break
				}
				steps[i] = res.Steps
			}
			c.Stat("ladder_programs", 1)
			// linear: 8x the input may cost at most ~8x the steps (+ slack)
			if steps[0] > 0 && steps[1] > 10*steps[0]+1000 {
				c.Report("scanner/parser steps grow faster than the input", mkWhat("%q: %d steps for 64 copies, %d for 512", u, steps[0], steps[1]), mkCase("<?php "+strings.Repeat(u, 512), v, "scaling ladder"))
			}
		}
	}
}

// cpuNow: CPU time consumed by this process so far (user + system), insensitive to how busy the machine is.
func cpuNow() time.Duration {
	var ru syscall.Rusage
	syscall.Getrusage(syscall.RUSAGE_SELF, &ru)
	return time.Duration(ru.Utime.Nano() + ru.Stime.Nano())
}

// c01TimeLadder: work that the step hooks cannot see (loops in helpers such as the line table) is bounded
// through CPU time: 8 times the input may cost at most 40 times the CPU time (linear: about 8, measured up to 18 with the collector at work, quadratic: 64).
// Minimum of three runs per size; CPU time, not wall time, so a busy machine does not matter.
func c01TimeLadder(c *core.Ctx) {
	type form struct{ pre, unit, post string }
	var forms []form
	for _, u := range []string{"$a;\n", "// c\n", "\n", "'x'\n;", "$a = \"b $c\";\n", "/* c\n */\n", "?>\nh\n<?php\n", "f(1,\n2);\n"} {
		forms = append(forms, form{"<?php\n", u, ""})
	}
	// one very long token, and deep (balanced) nesting
	forms = append(forms,
		form{"<?php '", "ab", "';"}, form{"<?php \"", "a$b ", "\";"}, form{"<?php /*", "ab\n", "*/"}, form{"<?php $", "ab", ";"}, form{"<?php ", "12", ";"},
		form{"<?php 0x", "1f", ";"}, form{"<?php <<<A\n", "a $b\n", "A;\n"}, form{"<?php <<<'", "Ab", "'\nx\n"}, form{"<?php \"$a[", "12", "]\";"}, form{"", "ab\n", "<?php ;"},
		form{"<?php __halt_compiler();", "ab\n", ""}, form{"<?php a", "\\a", ";"}, form{"<?php $a", "->b", ";"}, form{"<?php $a = ", "1 + ", "1;"}, form{"<?php $a = ", "[", "1;"},
		form{"<?php f(", "1, ", "1);"}, form{"<?php $a", "[1]", ";"}, form{"<?php ", "if ($a) ", ";"}, form{"<?php ", "{", ""}, form{"<?php ", "#c\r", ""},
		// one long run of one character inside each string mode (helpers that look back from every byte)
		form{"<?php \"$a ", "\\\\", "\";"}, form{"<?php `$a ", "\\\\", "`;"}, form{"<?php <<<A\n$a ", "\\\\", "\nA;\n"}, form{"<?php '", "\\\\", "';"},
		form{"<?php \"$a ", "$", "\";"}, form{"<?php \"$a ", "{", "\";"}, form{"<?php <<<A\n", "A", "\nA;\n"}, form{"<?php <<<A\n", " ", "A;\n"}, form{"<?php ", "?", ";"},
		form{"<?php ", "<", ";"}, form{"", "<", ""}, form{"<?php /*", "*", "/"}, form{"<?php \"$a[", "]", "\";"}, form{"<?php $a", "-", ";"},
		// a lexical construct that is never closed, with many lines and tokens behind its opener (the scanner looks ahead to
		// the end of the input, gives up, and goes on token by token)
		form{"<?php /*", "\n;", ""}, form{"<?php '", "\n;", ""}, form{"<?php \"", "\n$a;", ""}, form{"<?php `", "\n$a;", ""}, form{"<?php <<<A\n", "x\n$a;\n", ""}, form{"<?php <<<'A'\n", "x\n;\n", ""})
	for _, fm := range forms {
		pre, u, post := fm.pre, fm.unit, fm.post
		for _, v := range []*version.Version{drive.V74, drive.V56} {
			if !c.Next() {
				continue
			}
			measure := func(k int) time.Duration {
				src := []byte(pre + strings.Repeat(u, k) + post)
				best := time.Duration(1 << 62)
				for r := 0; r < 3; r++ {
					drive.SetBlockSize(drive.ProdBlock)
					t0 := cpuNow()
					res := drive.Parse(src, v, true)
					d := cpuNow() - t0
					drive.SetBlockSize(smallBlock)
					if !res.OK() {
						return -1
					}
					if d < best {
						best = d
					}
				}
				return best
			}
			small, big := measure(4000), measure(32000)
			c.Stat("cpu_time_ladder_programs", 1)
			if small < 0 || big < 0 {
				continue // crashes and hangs are reported by the step ladder
			}
			c.Max("max_cpu_time_ratio_x8_input_x100", int64(big*100/(small+1)))
			c.Max(fmt.Sprintf("cpu_ratio_x100 %q+%q*k+%q %s", pre, u, post, verStr(v)), int64(big*100/(small+1)))
			if big > 40*small+50*time.Millisecond {
				cs := mkCase(pre+strings.Repeat(u, 40)+post, v, "CPU-time ladder")
				cs.Text = fmt.Sprintf("%q + %q x 4000 / x 32000 + %q", pre, u, post)
				c.Report("CPU time grows faster than the input (more than 40x for 8x the input)", mkWhat("%q: %v for 4000 copies, %v for 32000 copies (minimum of 3 runs each)", u, small, big), cs)
			}
		}
	}
}

func init() {
	register(&core.Check{
		Prop: "C01", Level: "exploration", Exhaust: true, QuickSecs: 400, ThorSecs: 3000,
		Rule: "A: every string of <= 3 symbols over the 70-symbol alphabet (all byte literals of scanner.rl + class representatives + mode-switching fragments + hex, binary and overflowing number forms) from each of 15 start contexts (one per scanner machine) under 7.4/5.6/7.2 x {callback, nil}; thorough: one more ring (4 symbols) under 7.4; <= 4 (thorough 5) symbols over the 28-symbol core alphabet; <= 2 core symbols under all 12 versions x {callback, nil}. " +
			"B: every byte-prefix of every rule-level (thorough: 2-path) corpus program of both grammars in three line-terminator layouts and of every special, with and without callback; grammar-action error programs under all versions x {callback, nil}. " +
			"C: every (LALR state, terminal) cell of both automata — access sentence + terminal + tail — i.e. every configuration in which yacc error recovery can start. D: scaling ladder (64 vs 512 copies of 19 units): scanner/parser steps must grow linearly; CPU-time ladder (4000 vs 32000 copies of 42 units: lines, one very long token of each kind, long runs of one character in each string mode, deep nesting and long chains; minimum of 3 runs): at most 40x the CPU time for 8x the input. " +
			"Oracle: no panic escapes Parse; scanner restarts + Lex calls <= 64+16*len (deterministic hang detector); input buffer unchanged — the parse runs on a write-protected mapping, so any store into the input faults, also one that rewrites the same bytes; err == nil. non-trivial/distinct = distinct input byte strings",
		Assume: []string{"a scanner that makes progress consumes at least one byte per loop restart (measured maximum on valid code is reported as max_steps_per_input_byte_x100)"},
		Run:    c01Run,
		Replay: replaySrc(c01One),
	})
}
