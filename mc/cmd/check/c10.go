package main

import (
	"github.com/z7zmey/php-parser/pkg/ast"
	"strings"
	"github.com/z7zmey/php-parser/verifmc/astx"
	"github.com/z7zmey/php-parser/verifmc/core"
	"github.com/z7zmey/php-parser/verifmc/corpus"
	"github.com/z7zmey/php-parser/verifmc/drive"
	"github.com/z7zmey/php-parser/verifmc/lexm"
)

// C10 — PHP 5 and PHP 7 grammars agree on shared syntax.

// uvsOrYield: token-level superset of the constructs whose meaning differs between PHP 5 and PHP 7
// (uniform variable syntax; `yield` as an operator).
func uvsOrYield(names []string) string {
	// PHP 5's constant-expression grammar gives unary +/- the precedence of the binary operator, so
	// `const a = + 1 % 1` is +(1 % 1) in PHP 5.6 and (+1) % 1 in PHP 7: not the same meaning.
	staticCtx, mulOp := false, false
	for _, n := range names {
		switch n {
		case "T_CONST", "T_STATIC", "T_FUNCTION", "T_FN", "T_VAR", "T_PUBLIC", "T_PROTECTED", "T_PRIVATE", "T_DECLARE":
			staticCtx = true
		case "'*'", "'/'", "'%'":
			mulOp = true
		}
	}
	for i, n := range names {
		if (n == "'+'" || n == "'-'") && staticCtx && mulOp && i > 0 {
			switch names[i-1] {
			case "'='", "'('", "','", "T_DOUBLE_ARROW", "'['", "'?'", "':'":
				return "unary-sign-in-constant-expression"
			}
		}
		// `$a = & <operand> <binary operator> …`: PHP 5 takes a variable after `=&`, PHP 7.0-7.3 an expression
		if n == "'&'" && i > 0 && names[i-1] == "'='" {
			for j := i + 1; j < len(names) && names[j] != "';'"; j++ {
				switch names[j] {
				case "T_VARIABLE", "T_STRING", "'['", "']'", "T_OBJECT_OPERATOR", "T_PAAMAYIM_NEKUDOTAYIM", "'('", "')'", "T_LNUMBER", "T_NEW", "T_NS_SEPARATOR", "','", "'$'", "'{'", "'}'", "T_CONSTANT_ENCAPSED_STRING", "T_STATIC", "T_NAMESPACE":
				default:
					return "reference-assignment-operand"
				}
			}
		}
	}
	for i, n := range names {
		switch n {
		case "'$'", "T_DOLLAR_OPEN_CURLY_BRACES":
			if n == "'$'" {
				// `$$a`, `$$$a`: the same nesting in both languages unless an offset follows (`$$a['x']` is `${$a['x']}` in
				// PHP 5 and `($$a)['x']` in PHP 7); `${expr}` stays excluded
				j := i
				for j < len(names) && names[j] == "'$'" {
					j++
				}
				if j < len(names) && names[j] == "T_VARIABLE" && !(j+1 < len(names) && (names[j+1] == "'['" || names[j+1] == "'{'")) {
					continue
				}
				return "uvs"
			}
		case "T_OBJECT_OPERATOR", "T_PAAMAYIM_NEKUDOTAYIM":
			// `$a->$b`, `$a->{expr}`, `A::$b()`: the same in both languages unless an offset follows the member name
			// (`$a->$b['x']` is `$a->{$b['x']}` in PHP 5 and `($a->$b)['x']` in PHP 7)
			if i+1 < len(names) && (names[i+1] == "T_VARIABLE" || names[i+1] == "'$'" || names[i+1] == "'{'") {
				j := i + 2
				if names[i+1] == "'{'" {
					depth := 1
					for j < len(names) && depth > 0 {
						switch names[j] {
						case "'{'", "T_CURLY_OPEN", "T_DOLLAR_OPEN_CURLY_BRACES":
							depth++
						case "'}'":
							depth--
						}
						j++
					}
				} else if names[i+1] == "'$'" {
					return "uvs"
				}
				if j < len(names) && (names[j] == "'['" || names[j] == "'{'") {
					return "uvs"
				}
			}
		case "T_YIELD", "T_YIELD_FROM":
			// only the statement forms `yield;`, `yield X;`, `$v = yield …;` with a plain operand are shared;
			// a yield next to any other operator groups differently (PHP 7 made it a real operator)
			prev := ""
			if i > 0 {
				prev = names[i-1]
			}
			if !(prev == "';'" || prev == "'{'" || prev == "'}'" || prev == "T_OPEN_TAG" || prev == "'='" || prev == "'('") {
				return "yield-operand"
			}
			// operand: up to the next ';' only simple tokens
			for j := i + 1; j < len(names) && names[j] != "';'"; j++ {
				switch names[j] {
				case "T_VARIABLE", "T_LNUMBER", "T_DNUMBER", "T_CONSTANT_ENCAPSED_STRING", "T_STRING", "T_DOUBLE_ARROW", "')'":
				default:
					return "yield-operand"
				}
			}
		case "T_NEW":
			// `new` with a dynamic class reference chain
			if i+1 < len(names) && names[i+1] == "T_VARIABLE" && i+2 < len(names) && (names[i+2] == "T_OBJECT_OPERATOR" || names[i+2] == "T_PAAMAYIM_NEKUDOTAYIM" || names[i+2] == "'['" || names[i+2] == "'{'") {
				return "uvs"
			}
		case "T_GLOBAL":
			if i+1 < len(names) && names[i+1] == "'$'" {
				return "uvs"
			}
		}
	}
	return ""
}

func c10One(c *core.Ctx, cs srcCase) {
	setBlock(&cs)
	f5, f7 := corpus.MustFam("php5"), corpus.MustFam("php7")
	n5, _, ok5 := lexm.Scan(cs.Src, f5.V)
	n7, _, ok7 := lexm.Scan(cs.Src, f7.V)
	if !ok5 || !ok7 {
		c.Stat("scanner_failed(C01 domain)", 1)
		return
	}
	if !f5.A.Run(n5, nil) || !f7.A.Run(n7, nil) {
		c.Stat("not_valid_in_both_families(not shared syntax)", 1)
		return
	}
	c.P.Traces += 2
	if why := uvsOrYield(n7); why != "" {
		c.Stat("excluded_"+why+"(meaning differs between the languages)", 1)
		return
	}
	if why := uvsOrYield(n5); why != "" {
		c.Stat("excluded_"+why+"(meaning differs between the languages)", 1)
		return
	}
	r5 := drive.Parse(cs.Src, f5.V, true)
	r7 := drive.Parse(cs.Src, f7.V, true)
	if !r5.OK() || !r7.OK() {
		c.Stat("crashed_or_hung(C01 domain)", 1)
		return
	}
	c.Stat("shared_programs_compared", 1)
	c.NontrivialH(core.Hash(string(cs.Src)))
	if e5, e7 := errList(r5.Errs), errList(r7.Errs); e5 != e7 {
		c.Report("shared program: the two families report different errors", mkWhat("5.6: %s; 7.4: %s in %q", e5, e7, cs.Src), cs)
		return
	} else if e5 != "" {
		// the same complaint from both parsers about a program both automata accept is a scanner matter
		// (C03/C08 judge it); the trees are still compared
		c.Stat("both_families_report_identical_errors(judged by C03/C08)", 1)
	}
	if (r5.Root == nil) != (r7.Root == nil) {
		c.Report("shared program: a tree under one family only", mkWhat("%q", cs.Src), cs)
		return
	}
	if r5.Root == nil {
		return
	}
	if l, w := astx.Diff(r5.Root, r7.Root, true); l != "" {
		if strings.HasPrefix(l, "list length") {
			l += " (" + w + ")"
		}
		if strings.HasSuffix(l, "ScalarHeredoc.CloseHeredocTkn") {
			for _, n := range astx.PreOrder(r7.Root) {
				if h, ok := n.(*ast.ScalarHeredoc); ok && len(h.Parts) == 0 {
					l += " of a heredoc without body"
					break
				}
			}
		}
		c.Report("trees differ (5.6 vs 7.4): "+l, mkWhat("%s in %q", w, cs.Src), cs)
	}
}

func c10Run(c *core.Ctx) {
	level := 2
	if c.Thorough() {
		level = 6
	}
	seen := map[string]bool{}
	for _, fam := range []string{"php7", "php5"} {
		f := corpus.MustFam(fam)
		for _, it := range f.Items(level) {
			if !it.ScanOK || !it.Valid {
				continue
			}
			deep := true
			forDeviations(it, deep, deep, func(src, why string) {
				if seen[src] {
					return
				}
				if len(seen) < 4_000_000 {
					seen[src] = true
				}
				if !c.Next() {
					return
				}
				cs := mkCase(src, nil, why)
				cs.Ver = "5.6+7.4"
				c10One(c, cs)
				c.Sample(cs)
			})
		}
	}
	for _, fam := range []string{"php7", "php5"} {
		wideItems(corpus.MustFam(fam), true, func(it *corpus.Item, src, why string) {
			if seen[src] {
				return
			}
			seen[src] = true
			if c.Next() {
				cs := mkCase(src, nil, why)
				cs.Ver = "5.6+7.4"
				c10One(c, cs)
			}
		})
	}
	// E-pairs: every production after every production, in both grammars (values left on the yacc stack)
	for _, fam := range []string{"php7", "php5"} {
		forPairs(c, corpus.MustFam(fam), pairLevel(c), 1, func(p, s *corpus.Item, src string) {
			cs := mkCase(src, nil, "pair of corpus programs")
			cs.Ver = "5.6+7.4"
			c10One(c, cs)
		})
	}
	for _, src := range corpus.Specials() {
		if !c.Next() {
			continue
		}
		cs := mkCase(src, nil, "special head/body/tail or literal form")
		cs.Ver = "5.6+7.4"
		c10One(c, cs)
	}
	// postfix chains: the PHP 5 grammar assembles them iteratively (object_property lists, method_or_not, dereference
	// lists), the PHP 7 grammar by left recursion; every chain of <= 4 (thorough 5) operations that both automata accept
	// and that is not sensitive to the uniform variable syntax must give the same tree
	n := 4
	if c.Thorough() {
		n = 5
	}
	for _, src := range corpus.ChainPrograms(n) {
		if !c.Next() {
			continue
		}
		cs := mkCase(src, nil, "postfix chain")
		cs.Ver = "5.6+7.4"
		c.Stat("chains", 1)
		c10One(c, cs)
	}
}

func init() {
	register(&core.Check{
		Prop: "C10", Level: "exploration", Exhaust: true, QuickSecs: 300, ThorSecs: 2400,
		Rule: "every program of the E-lr corpora of BOTH grammars (rules, 2-paths; thorough: nullable combinations, 3-paths), in baseline layout, with unique trivia, with every 1-deviation of trivia and lexeme, plus the specials; a program counts as shared syntax when the reference LR drivers of both automata accept the token strings the real scanner returns under 5.6 and 7.4, minus a token-level superset of uniform-variable-syntax patterns and of `yield` used as an operator (meaning differs). " +
			"Oracle: both parses report zero errors and the two trees are identical in kinds, nesting, values, tokens (id, text, position, free-floating) and positions. non-trivial = program accepted by both drivers and compared; distinct by source text",
		Assume: []string{"the exclusion list is a superset of the constructs PHP 7.0's uniform variable syntax and yield-as-operator changed"},
		Run:    c10Run,
		Replay: replaySrc(c10One),
	})
}
