package main

import (
	"fmt"
	"strconv"
	"strings"

	"github.com/z7zmey/php-parser/pkg/errors"
	"github.com/z7zmey/php-parser/pkg/version"
	"github.com/z7zmey/php-parser/verifmc/astx"
	"github.com/z7zmey/php-parser/verifmc/core"
	"github.com/z7zmey/php-parser/verifmc/corpus"
	"github.com/z7zmey/php-parser/verifmc/drive"
	"github.com/z7zmey/php-parser/verifmc/ebytes"
	"github.com/z7zmey/php-parser/verifmc/lexm"
	"github.com/z7zmey/php-parser/verifmc/oracle"
)

// C06 — malformed input is always reported; a silent parse is a complete parse.

// errClass: the error message without the quoted token (finding keys must not depend on the input).
func errClass(msg string) string {
	if i := strings.Index(msg, "unexpected"); i >= 0 {
		return msg[:i] + "unexpected …"
	}
	if i := strings.Index(msg, "'"); i >= 0 {
		return msg[:i] + "…"
	}
	return msg
}

// errShape checks (c): message, position range, line, selected text, order.
func errShape(c *core.Ctx, cs srcCase, errs []*errors.Error, atLex []int, lexTotal int) {
	src := cs.Src
	lt := lexm.NewLineTable(src)
	var spans map[[2]int]bool
	last := -1
	sawEnd := false
	for i, e := range errs {
		if e == nil {
			c.Report("error shape: nil error delivered", mkWhat("%q", src), cs)
			continue
		}
		if strings.TrimSpace(e.Msg) == "" {
			c.Report("error shape: empty message", mkWhat("error %d of %q", i, src), cs)
		}
		p := e.Pos
		cl := errClass(e.Msg)
		if p == nil {
			// "no position" stands for the end of the input: the scanner must already have handed out its last token
			if i < len(atLex) && atLex[i] < lexTotal {
				c.Report("error shape: no position although the error is not at the end of the input ("+cl+")", mkWhat("%s (error %d, delivered after %d of %d tokens) in %q", e.Msg, i, atLex[i], lexTotal, src), cs)
			}
			sawEnd = true
			continue
		}
		if sawEnd {
			// an error without position is located at the end of the input: nothing located inside the source may follow it
			c.Report("error order: an error located inside the source arrives after the end-of-input error ("+cl+")", mkWhat("%s in %q", errList(errs), src), cs)
		}
		if p.StartPos < 0 || p.EndPos > len(src) || p.StartPos > p.EndPos {
			c.Report("error shape: position out of range ("+cl+")", mkWhat("[%d,%d) of %d bytes: %s in %q", p.StartPos, p.EndPos, len(src), e.Msg, src), cs)
			continue
		}
		if p.StartPos < len(src) {
			if want := lt.Line(p.StartPos); p.StartLine != want {
				c.Report("error shape: wrong start line ("+cl+")", mkWhat("StartLine %d, offset %d is on line %d: %s in %q", p.StartLine, p.StartPos, want, e.Msg, src), cs)
			}
		}
		if p.EndPos > p.StartPos {
			if want := lt.Line(p.EndPos - 1); p.EndLine != want {
				c.Report("error shape: wrong end line ("+cl+")", mkWhat("EndLine %d, offset %d is on line %d: %s in %q", p.EndLine, p.EndPos-1, want, e.Msg, src), cs)
			}
		}
		if p.StartPos < last {
			// the locus is what the late error points at, not its wording (a rewording must not turn a recorded finding
			// into a violation): the first word or punctuation character at its position
			c.Report("error order: an error arrives after one located later in the source ("+verFamName(cs.Ver)+": it points at "+strconv.Quote(firstWord(src[p.StartPos:p.EndPos]))+")", mkWhat("%s in %q", errList(errs), src), cs)
		}
		if p.StartPos > last {
			last = p.StartPos
		}
		// the offsets select the offending text: a token the scanner produced (syntax and semantic
		// errors), or the offending byte (scanner warnings)
		if strings.HasPrefix(e.Msg, "WARNING: Unexpected character") {
			if p.EndPos-p.StartPos != 1 || !strings.Contains(e.Msg, fmt.Sprintf("(ASCII=%d)", src[p.StartPos])) {
				c.Report("error shape: scanner warning does not select the offending byte", mkWhat("%s at [%d,%d) in %q", e.Msg, p.StartPos, p.EndPos, src), cs)
			}
			continue
		}
		if strings.HasPrefix(e.Msg, "syntax error: unexpected") {
			if spans == nil {
				spans = map[[2]int]bool{}
				sv := parseVer(cs.Ver)
				if sv == nil {
					sv = drive.V74 // an omitted version means 7.4
				}
				_, toks, ok := lexm.Scan(src, sv)
				if ok {
					for _, t := range toks {
						if t.Position != nil {
							spans[[2]int{t.Position.StartPos, t.Position.EndPos}] = true
						}
					}
				}
			}
			if len(spans) > 0 && !spans[[2]int{p.StartPos, p.EndPos}] {
				c.Report("error shape: syntax error does not select a token of the source", mkWhat("%s at [%d,%d) %q in %q", e.Msg, p.StartPos, p.EndPos, src[p.StartPos:p.EndPos], src), cs)
			} else if want := string(src[p.StartPos:p.EndPos]); !strings.Contains(e.Msg, "unexpected T_") && !strings.Contains(strings.SplitN(e.Msg, "unexpected", 2)[1], want) && p.EndPos-p.StartPos == 1 {
				// one-character tokens are named by their text (however the message quotes it)
				c.Report("error shape: syntax error names another token than the one it selects", mkWhat("%s selects %q in %q", e.Msg, src[p.StartPos:p.EndPos], src), cs)
			}
		}
	}
}

func verFamName(ver string) string {
	if strings.HasPrefix(ver, "5") {
		return "php5"
	}
	return "php7"
}

var c06Lexical = []string{
	"<?php $a = 09; $b = 0778 + 08_1; f(019, 1_000, 0x1F, 0b11, 1e3, .5, 9223372036854775808);",
	"<?php $s = \"\\u{1F600} \\u{} \\u{110000} \\u{1z} \\x41 \\101 \\400 \\n $a {$b} ${c} \\u{1F60\";",
	"<?php $h = <<<A\n\\u{1F600} \\u{12\nA;\n$n = <<<'B'\n\\u{zz}\nB;\n`\\u{1F60`;",
	"<?php \x01 $a \x7f = \x00 1; /* c */ // d\n# e\n/** f */ (int) $a; (  string  ) $b; $c->list; A::class;",
	"<?php echo 'a\\'b', \"x\\\"y\", b\"z\", <<<\"Q\"\n$v[0] $v[k] $v[-1] $v->p\nQ;\n?>html<?= $x ?>\n<?php __halt_compiler();data",
}

// firstWord: the leading identifier (lower-cased) or the leading byte of a source span.
func firstWord(b []byte) string {
	n := 0
	for n < len(b) && (b[n] == '_' || b[n] >= 'a' && b[n] <= 'z' || b[n] >= 'A' && b[n] <= 'Z') {
		n++
	}
	if n == 0 && len(b) > 0 {
		n = 1
	}
	return strings.ToLower(string(b[:n]))
}

// c06One: mode in cs.Aux — "invalid" (the program is known to be invalid), "valid" (known valid), "" unknown.
func c06One(c *core.Ctx, cs srcCase) {
	setBlock(&cs)
	v := parseVer(cs.Ver)
	res := drive.Parse(cs.Src, v, true)
	if !res.OK() {
		c.Stat("crashed_or_hung(C01 domain)", 1)
		return
	}
	c.NontrivialH(core.Hash(cs.Ver + string(cs.Src)))
	switch cs.Aux {
	case "invalid":
		c.Stat("known_invalid_programs", 1)
		if res.NErr() == 0 {
			c.Report("invalid program parsed without any error ("+cs.Why+")", mkWhat("%q under %s", cs.Src, cs.Ver), cs)
		}
	case "valid":
		c.Stat("known_valid_programs", 1)
	}
	if res.NErr() == 0 {
		c.Stat("silent_parses", 1)
		if res.Root == nil {
			c.Report("silent parse returns no tree", mkWhat("%q under %s", cs.Src, cs.Ver), cs)
		} else {
			for _, vv := range oracle.Tokens(cs.Src, res.Root, true) {
				if strings.Contains(vv.Key, "gap before") || strings.Contains(vv.Key, "tail of the source") {
					c.Report("silent parse is incomplete: "+vv.Key, vv.What, cs)
				}
			}
		}
	} else {
		c.Stat("parses_with_errors", 1)
		c.Stat("errors_shape_checked", int64(res.NErr()))
		errShape(c, cs, res.Errs, res.ErrAtLex, res.LexCalls)
	}
	// (d) callback independence
	r2 := drive.Parse(cs.Src, v, false)
	if !r2.OK() {
		c.Stat("crashed_or_hung(C01 domain)", 1)
		return
	}
	if (res.Root == nil) != (r2.Root == nil) {
		c.Report("callback changes whether a tree is returned", mkWhat("%q under %s", cs.Src, cs.Ver), cs)
	} else if res.Root != nil {
		if l, w := astx.Diff(res.Root, r2.Root, true); l != "" {
			c.Report("callback changes the tree: "+l, mkWhat("%s in %q under %s", w, cs.Src, cs.Ver), cs)
		}
	}
}

// bracket classes of a scanner token name: +1 opener, -1 closer, class id
func bracketOf(name string) (int, byte) {
	switch name {
	case "'('":
		return 1, '('
	case "')'":
		return -1, '('
	case "'['":
		return 1, '['
	case "']'":
		return -1, '['
	case "'{'", "T_CURLY_OPEN", "T_DOLLAR_OPEN_CURLY_BRACES":
		return 1, '{'
	case "'}'":
		return -1, '{'
	}
	return 0, 0
}

// balanced: is the token string bracket-balanced (properly nested)? Every rule of both grammars has a
// balanced right-hand side (checked at run time by lr.Unbalanced), hence every valid token string is.
func balanced(names []string) bool {
	var st []byte
	for _, n := range names {
		d, cl := bracketOf(n)
		if d > 0 {
			st = append(st, cl)
		} else if d < 0 {
			if len(st) == 0 || st[len(st)-1] != cl {
				return false
			}
			st = st[:len(st)-1]
		}
	}
	return len(st) == 0
}

// bracketEdits: for a valid program, all single-bracket insertions/deletions and truncations inside
// brackets, at token boundaries in PHP mode. Returned programs are candidates; each is re-scanned and only
// used if its token string is unbalanced.
func bracketEdits(it *corpus.Item, fn func(src, why string)) {
	src := it.Src
	toks := it.RealToks
	for i, t := range toks {
		if t.Position == nil {
			continue
		}
		st, en := t.Position.StartPos, t.Position.EndPos
		d, _ := bracketOf(it.Real[i])
		if d != 0 && en-st == 1 {
			fn(src[:st]+" "+src[en:], "bracket deleted")
		}
		for _, b := range []string{"(", ")", "[", "]", "{", "}"} {
			fn(src[:st]+b+" "+src[st:], "bracket inserted")
		}
	}
	depth := 0
	for i, t := range toks {
		d, _ := bracketOf(it.Real[i])
		depth += d
		if depth > 0 && t.Position != nil {
			fn(src[:t.Position.EndPos], "truncated inside brackets")
		}
	}
	for _, b := range []string{"(", ")", "[", "]", "{", "}"} {
		fn(src+" "+b, "bracket appended")
	}
}

func c06Run(c *core.Ctx) {
	tails := cellTails[:1]
	level := 1
	if c.Thorough() {
		tails = cellTails
		level = 2
	}
	for _, fam := range []string{"php7", "php5"} {
		f := corpus.MustFam(fam)
		if bad := f.A.Unbalanced(); len(bad) > 0 {
			c.Note(fmt.Sprintf("%s: %d rules with unbalanced right-hand sides; bracket edits skipped", fam, len(bad)))
		}
		// (a1) every cell of the action table
		forCells(c, f, tails, func(cl cell) {
			cs := mkCase(cl.It.Src, f.V, "LR cell rejected by the reference driver")
			if cl.It.Valid {
				cs.Aux, cs.Why = "valid", "LR cell accepted by the reference driver"
			} else {
				cs.Aux = "invalid"
			}
			c.P.Traces++
			c06One(c, cs)
			c.Sample(cs)
		})
		// (a2) bracket edits of corpus programs
		if len(f.A.Unbalanced()) == 0 {
			for _, it := range validItems(f, level) {
				bracketEdits(it, func(src, why string) {
					if !c.Next() {
						return
					}
					names, _, ok := lexm.Scan([]byte(src), f.V)
					if !ok || balanced(names) {
						c.Stat("bracket_edits_still_balanced(not used)", 1)
						return
					}
					cs := mkCase(src, f.V, why+": unbalanced token string")
					cs.Aux = "invalid"
					c06One(c, cs)
					if fam == "php7" {
						// the same with the version left out of the configuration (it means 7.4): the callback must still be served
						cs = mkCase(src, nil, why+": unbalanced token string, version omitted")
						cs.Aux = "invalid"
						c06One(c, cs)
					}
				})
			}
		}
		// valid corpus programs: silent => complete, callback independence
		for _, it := range f.Items(6) {
			if !it.ScanOK || !c.Next() {
				continue
			}
			cs := mkCase(it.Src, f.V, "corpus program")
			if it.Valid {
				cs.Aux = "valid"
			} else {
				cs.Aux, cs.Why = "invalid", "corpus sentence rejected by the reference driver"
			}
			c06One(c, cs)
			if fam == "php7" {
				cs.Ver, cs.Why = "nil", cs.Why+", version omitted"
				c06One(c, cs)
			}
		}
	}
	for _, src := range c01Semantic {
		for _, v := range []*version.Version{drive.V56, drive.V74} {
			if c.Next() {
				c06One(c, mkCase(src, v, "program with a semantic (grammar-action) error"))
			}
		}
	}
	// problems the scanner itself reports (stray bytes, invalid numeric literals, whatever a scanner may come to report about
	// escape sequences): lexically rich programs and every byte-prefix of them — shape and order of the errors, and the same
	// tree with and without callback
	for _, src := range c06Lexical {
		for n := 1; n <= len(src); n++ {
			for _, v := range []*version.Version{drive.V74, drive.V56, nil} {
				if c.Next() {
					c.Stat("prefixes_of_lexically_rich_programs", 1)
					c06One(c, mkCase(src[:n], v, "byte-prefix of a lexically rich program"))
				}
			}
		}
	}
	// (c),(d) on E-bytes
	n := 2
	if c.Thorough() {
		n = 3
	}
	forBytes(c, ebytes.Sigma, n, ebytes.Contexts, func(src string, k int) {
		for _, v := range []*version.Version{drive.V74, drive.V56} {
			c06One(c, mkCase(src, v, "E-bytes"))
		}
	})
	forBytes(c, ebytes.Core, n+1, ebytes.Contexts, func(src string, k int) {
		if k <= n {
			return
		}
		c06One(c, mkCase(src, drive.V74, "E-bytes core"))
	})
	// the errors as the command-line tool reports them (-e): each file's errors under that file's path, in order
	cliExplore(c, "C06", [][]string{{"-p", "-e"}}, []string{"7.4", "5.6"}, cliConfigs(c.Thorough(), false))
}

func init() {
	register(&core.Check{
		Prop: "C06", Level: "model_checking", Exhaust: true, QuickSecs: 400, ThorSecs: 3000,
		Rule: "(a) every (LALR state, terminal) cell of both automata (access sentence + terminal + tail; thorough: 3 tails): the reference LR driver, run on the tokens the real scanner returns, says valid/invalid — invalid => >= 1 error; every corpus program with one bracket inserted at or deleted from any token boundary, appended, or truncated inside brackets, kept when the scanner's token string is unbalanced (every rule of both grammars is bracket-balanced, checked at run time, so unbalanced => invalid); driver-invalid corpus sentences. " +
			"(b) zero errors => non-nil root whose tokens cover the whole source. (c) on all of the above, on grammar-action error programs and on E-bytes (<= 2/3 symbols over the 70-symbol alphabet, one more over the core, 15 contexts, 7.4 and 5.6): every error has a non-empty message and no position or an in-range position with the reference start/end line, selecting a scanner token (syntax errors) or the offending byte (scanner warnings); positions arrive in non-decreasing order. (d) the tree with and without callback is identical (kinds, values, tokens, positions). " +
			"states/transitions: LALR states and action cells driven; traces = cell programs classified by the reference driver and replayed on the real parser. non-trivial = parsed without crash; distinct by (version, source)",
		Assume: []string{"goyacc -v describes the automaton compiled into php5.go/php7.go (the drivers' verdicts are replayed on the real parser; disagreement is reported as a violation of (a))"},
		Run:    c06Run,
		Replay: withCLIReplay(replaySrc(c06One)),
	})
}
