package main

import (
	"bytes"
	"encoding/json"
	"fmt"
	"reflect"
	"strings"

	"github.com/z7zmey/php-parser/pkg/ast"
	"github.com/z7zmey/php-parser/verifmc/astx"
	"github.com/z7zmey/php-parser/verifmc/core"
	"github.com/z7zmey/php-parser/verifmc/corpus"
	"github.com/z7zmey/php-parser/verifmc/drive"
	"github.com/z7zmey/php-parser/verifmc/dumpm"
	"github.com/z7zmey/php-parser/verifmc/oracle"
)

// ---------------------------------------------------------------------------------------------
// C16 on parsed trees: the dump of every corpus tree (4 option sets) read back with go/parser.

type corpusCase struct {
	Mode string `json:"mode"` // "dump-corpus" | "subtree"
	srcCase
	Node int `json:"node,omitempty"` // subtree: pre-order index of the replaced node
}

func c16Tree(c *core.Ctx, cs srcCase) {
	setBlock(&cs)
	res := drive.Parse(cs.Src, parseVer(cs.Ver), true)
	if !res.OK() || res.Root == nil {
		return
	}
	c.Nontrivial("tree/" + cs.Ver + string(cs.Src))
	rc := corpusCase{Mode: "dump-corpus", srcCase: cs}
	rc.srcCase.Mode = "dump-corpus"
	for opt := 0; opt < 4; opt++ {
		wt, wp := opt&1 != 0, opt&2 != 0
		if class, detail := dumpm.Check(res.Root, wt, wp); class != "" {
			c.Report("dump: "+class, fmt.Sprintf("parsed %q tokens=%v positions=%v: %s", cs.Src, wt, wp, detail), rc)
			return
		}
		c.Stat("dumps_read_back_with_go_parser", 1)
		c.Stat("parsed_tree_dumps", 1)
	}
}

// ---------------------------------------------------------------------------------------------
// C15 on parsed trees: a change confined to one subtree changes only that subtree's portion of the output.

const subtreeMarker = "\x01SUBTREE\x02"

// setChild replaces the child (field, index) of parent; returns the old child.
func setChild(parent ast.Vertex, field string, index int, nw ast.Vertex) ast.Vertex {
	v := reflect.ValueOf(parent).Elem().FieldByName(field)
	if index >= 0 {
		v = v.Index(index)
	}
	old, _ := v.Interface().(ast.Vertex)
	v.Set(reflect.ValueOf(&nw).Elem())
	return old
}

var seamGlue = []string{"", " ", "<?php ", "?>", "?><?php ", " <?php "}

func c15Subtrees(c *core.Ctx, cs srcCase, only int) {
	setBlock(&cs)
	res := drive.Parse(cs.Src, parseVer(cs.Ver), true)
	if !res.Clean() {
		return
	}
	out0, pan := oracle.Print(res.Root)
	if pan != nil || !bytes.Equal(out0, cs.Src) {
		c.Stat("round_trip_fails(C02 domain; not judged)", 1)
		return
	}
	c.Nontrivial("subtree/" + cs.Ver + string(cs.Src))
	idx := 0
	var walk func(n ast.Vertex)
	walk = func(n ast.Vertex) {
		for _, p := range astx.Parts(n) {
			if p.Node == nil {
				continue
			}
			idx++
			me := idx
			toks := astx.Tokens(p.Node)
			if len(toks) > 0 && (only < 0 || only == me) {
				// the subtree's portion of the source: from its first (free-floating) token to its last token
				a, b := -1, -1
				for _, tr := range toks {
					if tp := tr.Tok.Position; tp != nil {
						if a < 0 {
							a = tp.StartPos
						}
						if tp.EndPos > b {
							b = tp.EndPos
						}
					}
				}
				if a >= 0 && b >= a {
					var leaf ast.Vertex = &ast.Identifier{Value: []byte(subtreeMarker)}
					old := setChild(n, p.Field, p.Index, leaf)
					out1, pan1 := oracle.Print(res.Root)
					setChild(n, p.Field, p.Index, old)
					rc := corpusCase{Mode: "subtree", srcCase: cs, Node: me}
					rc.srcCase.Mode = "subtree"
					loc := astx.KindName(n) + "." + p.Field + " holding " + astx.KindName(p.Node)
					c.Stat("subtree_replacements", 1)
					if pan1 != nil {
						c.Report("printer panics after a subtree replacement at "+astx.KindName(n)+"."+p.Field, mkWhat("%v in %q", pan1, cs.Src), rc)
					} else {
						ok := false
						for _, g1 := range seamGlue {
							for _, g2 := range seamGlue {
								if string(out1) == string(cs.Src[:a])+g1+subtreeMarker+g2+string(cs.Src[b:]) {
									ok = true
								}
							}
						}
						if !ok {
							c.Report("replacing one subtree changes the output outside that subtree: "+astx.KindName(n)+"."+p.Field,
								mkWhat("%s: expected %q, got %q", loc, string(cs.Src[:a])+subtreeMarker+string(cs.Src[b:]), out1), rc)
						}
					}
				}
			}
			walk(p.Node)
		}
	}
	walk(res.Root)
}

func init() {
	c16Extra = func(c *core.Ctx) {
		level := 2
		if c.Thorough() {
			level = 5
		}
		for _, fam := range []string{"php7", "php5"} {
			f := corpus.MustFam(fam)
			for _, it := range f.Items(level) {
				if !it.ScanOK {
					continue
				}
				srcs := []string{it.Src}
				if it.R != nil && it.Valid {
					srcs = append(srcs, corpus.UniqueTrivia(it.R))
				}
				for _, s := range srcs {
					if c.Next() {
						c16Tree(c, mkCase(s, f.V, it.Why))
					}
				}
			}
		}
		for i, s := range corpus.Specials() {
			if (c.Thorough() || i%7 == 0) && c.Next() {
				c16Tree(c, mkCase(s, drive.V74, "special"))
			}
		}
	}
	c15Extra = func(c *core.Ctx) {
		c15Depth2(c)
		level := 2
		if c.Thorough() {
			level = 5
		}
		for _, fam := range []string{"php7", "php5"} {
			f := corpus.MustFam(fam)
			for _, it := range validItems(f, level) {
				srcs := []string{it.Src}
				if it.R != nil {
					srcs = append(srcs, corpus.UniqueTrivia(it.R))
				}
				for _, s := range srcs {
					if c.Next() {
						c15Subtrees(c, mkCase(s, f.V, it.Why), -1)
					}
				}
			}
		}
		for i, s := range corpus.Specials() {
			if (c.Thorough() || i%5 == 0) && c.Next() {
				c15Subtrees(c, mkCase(s, drive.V74, "special"), -1)
			}
		}
	}
	prev := replayCorpus
	replayCorpus = func(c *core.Ctx, raw json.RawMessage) {
		var cs corpusCase
		if json.Unmarshal(raw, &cs) == nil {
			switch cs.Mode {
			case "dump-corpus":
				c16Tree(c, cs.srcCase)
				return
			case "subtree":
				c15Subtrees(c, cs.srcCase, cs.Node)
				return
			}
		}
		var d2 c15D2Case
		if json.Unmarshal(raw, &d2) == nil && d2.Mode == "depth2" {
			c15D2(c, d2)
			return
		}
		if prev != nil {
			prev(c, raw)
		}
	}
	_ = strings.Join
}
