package main

import (
	"encoding/json"
	"fmt"
	"reflect"

	"github.com/z7zmey/php-parser/pkg/ast"
	"github.com/z7zmey/php-parser/pkg/visitor/traverser"
	"github.com/z7zmey/php-parser/verifmc/astx"
	"github.com/z7zmey/php-parser/verifmc/core"
)

// C12 — traversal == reflection pre-order.
//   A  every kind × every assignment of {absent, present} to its single-child slots and {nil, 1, 2, 3 items}
//      to its list slots, × {token slots empty, filled}
//   B  depth 2: every kind × every child slot × every kind as the child (itself completely filled)
//   C  every tree of the E-lr corpus (both grammars): traversal == pre-order, no node reachable twice,
//      siblings in increasing source offset   (added by corpus.go when the automata are available)

type slotCase struct {
	Mode   string `json:"mode"`
	Kind   string `json:"kind"`
	Digits []int  `json:"digits,omitempty"` // per child slot: 0 absent, 1.. present / item count
	Tokens bool   `json:"tokens,omitempty"`
	Slot   string `json:"slot,omitempty"`
	Child  string `json:"child,omitempty"`
}

func kindByName(name string) func() ast.Vertex {
	for _, mk := range astx.Kinds {
		if astx.KindName(mk()) == name {
			return mk
		}
	}
	return nil
}

// recordTraversal runs the real traverser with a recording visitor.
func recordTraversal(root ast.Vertex) (seq []ast.Vertex, panicked interface{}) {
	defer func() {
		if r := recover(); r != nil {
			panicked = r
		}
	}()
	v := &astx.FuncVisitor{F: func(n ast.Vertex) { seq = append(seq, n) }}
	traverser.NewTraverser(v).Traverse(root)
	return
}

func samePtr(a, b ast.Vertex) bool {
	return reflect.ValueOf(a).Pointer() == reflect.ValueOf(b).Pointer() && reflect.TypeOf(a) == reflect.TypeOf(b)
}

// locate: field of root (or of a depth-2 child) that holds node x
func locate(root ast.Vertex, x ast.Vertex) string {
	var res string
	var rec func(n ast.Vertex) bool
	rec = func(n ast.Vertex) bool {
		for _, p := range astx.Parts(n) {
			if p.Node == nil {
				continue
			}
			if samePtr(p.Node, x) {
				res = astx.KindName(n) + "." + p.Field
				return true
			}
			if rec(p.Node) {
				return true
			}
		}
		return false
	}
	if samePtr(root, x) {
		return astx.KindName(root) + " itself"
	}
	rec(root)
	return res
}

// compareTraversal reports differences between the visit sequence and the reflection pre-order.
func compareTraversal(c *core.Ctx, root ast.Vertex, cs interface{}, ctx string) {
	seq, pan := recordTraversal(root)
	kn := astx.KindName(root)
	if pan != nil {
		c.Report("traverse "+kn+": panic", fmt.Sprintf("%s: %v", ctx, pan), cs)
		return
	}
	want := astx.PreOrder(root)
	cnt := map[uintptr]int{}
	for _, n := range seq {
		cnt[reflect.ValueOf(n).Pointer()]++
	}
	inTree := map[uintptr]bool{}
	for _, w := range want {
		p := reflect.ValueOf(w).Pointer()
		inTree[p] = true
		if cnt[p] == 0 {
			c.Report("traverse: child never visited: "+locate(root, w), ctx, cs)
			return
		}
		if cnt[p] > 1 {
			c.Report("traverse: node visited more than once: "+locate(root, w), ctx, cs)
			return
		}
	}
	for _, n := range seq {
		if !inTree[reflect.ValueOf(n).Pointer()] {
			c.Report("traverse "+kn+": visitor received a node that is not in the tree", ctx, cs)
			return
		}
	}
	for i := range want {
		if !samePtr(seq[i], want[i]) {
			c.Report("traverse: wrong order at "+locate(root, want[i]), fmt.Sprintf("%s: position %d of the visit sequence is %s, expected %s", ctx, i, locate(root, seq[i]), locate(root, want[i])), cs)
			return
		}
	}
}

func fullSpec(fs []astx.Field) []astx.SlotSpec {
	spec := make([]astx.SlotSpec, len(fs))
	for i, f := range fs {
		spec[i] = astx.SlotSpec{Present: true, Items: 2}
		if f.Kind == astx.FToks && f.SepFor >= 0 {
			spec[i].Items = 1
		}
	}
	return spec
}

func c12Slot(c *core.Ctx, cs slotCase) {
	mk := kindByName(cs.Kind)
	if mk == nil {
		return
	}
	_, fs := astx.Elem(mk())
	switch cs.Mode {
	case "A":
		spec := make([]astx.SlotSpec, len(fs))
		ch := astx.SlotIdx(fs, astx.FNode, astx.FNodes)
		for k, i := range ch {
			d := 0
			if k < len(cs.Digits) {
				d = cs.Digits[k]
			}
			if d > 0 {
				spec[i] = astx.SlotSpec{Present: true, Items: d}
			}
		}
		if cs.Tokens {
			for i, f := range fs {
				if f.Kind == astx.FTok || f.Kind == astx.FToks || f.Kind == astx.FValue || f.Kind == astx.FPos {
					spec[i] = astx.SlotSpec{Present: true, Items: 1}
				}
			}
		}
		b := astx.Build(mk, spec, nil)
		compareTraversal(c, b.Node, cs, fmt.Sprintf("synthetic %s child slots %v tokens=%v", cs.Kind, cs.Digits, cs.Tokens))
	case "B":
		cmk := kindByName(cs.Child)
		if cmk == nil {
			return
		}
		spec := fullSpec(fs)
		b := astx.Build(mk, spec, func(i, j int) ast.Vertex {
			if fs[i].Name == cs.Slot && j <= 0 {
				_, cfs := astx.Elem(cmk())
				return astx.Build(cmk, fullSpec(cfs), func(a, b int) ast.Vertex { return astx.Leaf("D", a, b+1) }).Node
			}
			if j < 0 {
				return astx.Leaf("N", i, 0)
			}
			return astx.Leaf("L", i, j)
		})
		compareTraversal(c, b.Node, cs, fmt.Sprintf("synthetic %s with a full %s in slot %s", cs.Kind, cs.Child, cs.Slot))
	}
}

var c12Extra func(c *core.Ctx) // corpus trees (set by corpus code)

func c12Run(c *core.Ctx) {
	for _, mk := range astx.Kinds {
		proto := mk()
		kn := astx.KindName(proto)
		_, fs := astx.Elem(proto)
		ch := astx.SlotIdx(fs, astx.FNode, astx.FNodes)
		c.SetAdd("kinds", kn)
		radix := make([]int, len(ch))
		total := 1
		for k, i := range ch {
			radix[k] = 2
			if fs[i].Kind == astx.FNodes {
				radix[k] = 4
			}
			total *= radix[k]
		}
		for idx := 0; idx < total; idx++ {
			for _, tokens := range []bool{false, true} {
				if !c.Next() {
					continue
				}
				digits := make([]int, len(ch))
				x := idx
				for k := range ch {
					digits[k] = x % radix[k]
					x /= radix[k]
				}
				cs := slotCase{Mode: "A", Kind: kn, Digits: digits, Tokens: tokens}
				c12Slot(c, cs)
				c.P.States++
				if idx > 0 {
					c.Nontrivial(fmt.Sprintf("A/%s/%v/%v", kn, digits, tokens))
				}
				c.Sample(cs)
			}
		}
		for _, i := range ch {
			for _, cmk := range astx.Kinds {
				if !c.Next() {
					continue
				}
				cs := slotCase{Mode: "B", Kind: kn, Slot: fs[i].Name, Child: astx.KindName(cmk())}
				c12Slot(c, cs)
				c.P.States++
				c.Nontrivial("B/" + kn + "/" + cs.Slot + "/" + cs.Child)
				c.Stat("depth2_trees", 1)
				c.Sample(cs)
			}
		}
	}
	if c12Extra != nil {
		c12Extra(c)
	}
}

func init() {
	register(&core.Check{
		Prop: "C12", Level: "exploration", Exhaust: true, QuickSecs: 150, ThorSecs: 900,
		Rule: "A: every node kind of pkg/ast × every assignment {absent,present} to single-child slots and {nil,1,2,3 items} to list slots × {token/value/position slots empty, filled}; " +
			"B: every kind × every child slot × every kind as that child, completely filled (depth 2); C: every error-free tree of the generated corpus of both grammars. " +
			"Oracle: the sequence handed to a recording visitor by the real traverser equals the reflection pre-order in field order (each node once, parent first, nothing foreign); on parsed trees also: no node pointer reachable twice, siblings in increasing start offset. " +
			"non-trivial = at least one child present; distinct by (mode, kind, slot assignment) resp. corpus program text",
		Assume: []string{"field declaration order of pkg/ast is source order (validated on every parsed corpus tree: present parts have increasing offsets)", "marker leaves are ast.Identifier nodes"},
		Run:    c12Run,
		Replay: func(c *core.Ctx, raw json.RawMessage) {
			var cs slotCase
			if json.Unmarshal(raw, &cs) == nil && cs.Mode != "" {
				if cs.Mode == "A" || cs.Mode == "B" {
					c12Slot(c, cs)
				} else if replayCorpus != nil {
					replayCorpus(c, raw)
				}
			}
		},
	})
}

var replayCorpus func(c *core.Ctx, raw json.RawMessage)
