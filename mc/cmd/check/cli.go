package main

import (
	"bytes"
	"encoding/json"
	"fmt"
	"os"
	"os/exec"
	"path/filepath"
	"strings"
	"time"

	"github.com/z7zmey/php-parser/verifmc/core"
)

// E-sched over the command-line tool (cmd/php-parser): the tool's own main — directory walker, GOMAXPROCS parser
// workers, one printer goroutine, two buffered channels, one WaitGroup — is rewritten by tools/clirewrite so that
// every synchronisation operation is a scheduling point of a cooperative scheduler (mc/clidrv), and every
// schedule with at most `bound` preemptions is executed on the real code. After each execution stdout (-d),
// stderr (-p -e -r) and the files on disk (-pb) are compared with what the library gives for each file alone.
// Used by C02 (-pb), C06 (-e), C11 (all flags) and C16 (-d).

type cliScenario struct {
	Name    string            `json:"name"`
	Files   map[string]string `json:"files"`
	Flags   []string          `json:"flags"`
	PhpVer  string            `json:"phpver"`
	Procs   int               `json:"procs"`
	Bound   int               `json:"bound"`
	Limit   int               `json:"limit"`
	Replay  []int             `json:"replay,omitempty"`
	Dir     string            `json:"dir"`
	Shard   int               `json:"shard"`
	Shards  int               `json:"shards"`
	MaxExec int               `json:"max_exec"`
	Mode    string            `json:"mode"` // "cli" (tells the replay dispatcher what this case is)
}

type cliResult struct {
	Schedules    int `json:"schedules"`
	Points       int `json:"max_points"`
	Threads      int `json:"max_threads"`
	Observations int `json:"distinct_observations"`
	Orders       int `json:"distinct_output_orders"`
	Violations   []struct {
		Key      string `json:"key"`
		What     string `json:"what"`
		Schedule []int  `json:"schedule"`
		Ops      string `json:"ops"`
	} `json:"violations"`
	Unsupported string `json:"unsupported"`
	Capped      bool   `json:"capped"`
	Transitions int    `json:"transitions"`
}

// the file pool: sizes alternate (a buffer reused for a shorter dump keeps the tail of a longer one), two files
// with errors follow each other, names and namespaces differ per file
var cliPool = [][2]string{
	{"a.php", "<?php\nnamespace A;\nuse X\\Y as Z;\nfunction f(Z $p, \\Q $q): ?Z { return new Z(1 + 2, \"s$p\"); }\n"},
	{"b.php", "<?php new B; class C extends D implements Z {} $b = 1 +; $c = ); "}, // no namespace of its own: names must not inherit a.php's
	{"c.php", "<?php echo 1 +;"},
	{"d/d.php", "#!/usr/bin/php\n<html>\r\n<?php /* c */ $d = [1, 2 , ] ; ?>\r\ntail <?= $d ?>"},
	{"e.php", "<?php ;"},
	{"f.php", "<?php\nnamespace F;\nclass C extends B implements I { use T; const K = self::K; public function m() { return <<<EOT\nx $this->y z\nEOT;\n} }\n"},
	{"g.php", "<?php foo(;"},
}

func cliFiles(n int) map[string]string {
	m := map[string]string{"notes.txt": "not php", "h.inc": "<?php not parsed"}
	for i := 0; i < n && i < len(cliPool); i++ {
		m[cliPool[i][0]] = cliPool[i][1]
	}
	return m
}

type cliConfig struct {
	Procs, Files, Bound int
}

func cliTmp() string {
	if st, err := os.Stat("/dev/shm"); err == nil && st.IsDir() {
		d := "/dev/shm/verifcli"
		if os.MkdirAll(d, 0o755) == nil {
			return d
		}
	}
	d := filepath.Join(core.BuildDir(), "clitmp")
	os.MkdirAll(d, 0o755)
	return d
}

func cliRunOne(sc cliScenario) (*cliResult, string) {
	bin := filepath.Join(core.BuildDir(), "cli-explore")
	in, _ := json.Marshal(sc)
	cmd := exec.Command(bin)
	cmd.Stdin = bytes.NewReader(in)
	cmd.Env = append(os.Environ(), "VERIF_WORKER=", "GOMAXPROCS=2")
	var out, errb bytes.Buffer
	cmd.Stdout, cmd.Stderr = &out, &errb
	err := cmd.Run()
	os.RemoveAll(sc.Dir)
	var r cliResult
	if jerr := json.Unmarshal(out.Bytes(), &r); jerr != nil {
		return nil, fmt.Sprintf("explorer failed (%v): %s %s", err, clipS(errb.String(), 400), clipS(out.String(), 200))
	}
	return &r, ""
}

// cliExplore runs the scenarios (flag sets x configurations), each split into `split` shards of first-level
// deviations; one (scenario, shard) is one item of the check.
func cliExplore(c *core.Ctx, prop string, flagSets [][]string, vers []string, configs []cliConfig) {
	bin := filepath.Join(core.BuildDir(), "cli-explore")
	if _, err := os.Stat(bin); err != nil {
		reason, _ := os.ReadFile(bin + ".skip")
		if c.Shard == 0 {
			c.Note("command-line tool not explored: " + strings.TrimSpace(string(reason)))
			c.Stat("cli_exploration_skipped", 1)
		}
		return
	}
	const split = 8
	tmp := cliTmp()
	oldWall := c.WallPerItem
	c.WallPerItem = 15 * time.Minute // an item is a whole sub-exploration (thousands of executions)
	defer func() { c.WallPerItem = oldWall }()
	for _, fl := range flagSets {
		for vi, ver := range vers {
			for _, cf := range configs {
				if vi > 0 && cf.Bound > 1 {
					continue // the second version only at the smaller bound
				}
				for sh := 0; sh < split; sh++ {
					if !c.Next() {
						continue
					}
					c.Touch()
					sc := cliScenario{
						Name: fmt.Sprintf("%s procs=%d files=%d bound=%d php=%s", strings.Join(fl, " "), cf.Procs, cf.Files, cf.Bound, ver),
						Files: cliFiles(cf.Files), Flags: fl, PhpVer: ver, Procs: cf.Procs, Bound: cf.Bound, Limit: 5000,
						Dir: filepath.Join(tmp, fmt.Sprintf("x%d-%d", os.Getpid(), sh)), Shard: sh, Shards: split, Mode: "cli",
						MaxExec: 25000, // per shard; a tool whose goroutines block at almost every step has a far larger schedule tree
					}
					if c.Thorough() {
						sc.MaxExec = 200000
					}
					r, fail := cliRunOne(sc)
					if fail != "" {
						c.Report("cli: the explorer of the command-line tool fails", sc.Name+": "+fail, sc)
						continue
					}
					if r.Unsupported != "" {
						c.Note("command-line tool not explored: " + r.Unsupported)
						c.Stat("cli_exploration_skipped", 1)
						continue
					}
					c.Stat("cli_schedules", int64(r.Schedules))
					c.Stat("cli_decisions", int64(r.Transitions))
					c.P.Trans += int64(r.Transitions)
					c.P.States += int64(r.Schedules)
					c.P.Traces += int64(r.Schedules)
					c.Max("cli_max_points_per_schedule", int64(r.Points))
					c.Max("cli_max_enabled_goroutines", int64(r.Threads))
					c.Max("cli_distinct_output_orders_per_shard", int64(r.Orders))
					c.P.Evals += int64(r.Schedules) - 1
					c.Nontrivial(fmt.Sprintf("cli/%s/%d", sc.Name, sh))
					if r.Capped {
						c.P.Capped = true
						c.Note(fmt.Sprintf("command-line tool, %s, shard %d: stopped after %d executions (depth-first order; the rest of this shard's schedule tree is not explored)", sc.Name, sh, r.Schedules))
					}
					for _, v := range r.Violations {
						rc := sc
						rc.Replay = v.Schedule
						if rc.Replay == nil {
							rc.Replay = []int{}
						}
						rc.Shards, rc.Shard = 1, 0
						c.Report(v.Key, fmt.Sprintf("%s: %s\nschedule: %s", sc.Name, v.What, clipS(v.Ops, 500)), rc)
					}
					if sh == 0 {
						c.Sample(map[string]interface{}{"cli_scenario": sc.Name, "schedules_in_shard_0": r.Schedules})
					}
				}
			}
		}
	}
}

// cliReplay re-runs one recorded schedule; true if the case was a CLI case.
func cliReplay(c *core.Ctx, raw json.RawMessage) bool {
	var sc cliScenario
	if json.Unmarshal(raw, &sc) != nil || sc.Mode != "cli" {
		return false
	}
	sc.Dir = filepath.Join(cliTmp(), fmt.Sprintf("replay%d", os.Getpid()))
	for i := 0; i < 2; i++ { // replayed twice: the same schedule must give the same observations
		r, fail := cliRunOne(sc)
		if fail != "" {
			c.Report("cli: the explorer of the command-line tool fails", fail, sc)
			return true
		}
		for _, v := range r.Violations {
			c.Report(v.Key, sc.Name+": "+v.What, sc)
		}
	}
	return true
}

func withCLIReplay(inner func(c *core.Ctx, raw json.RawMessage)) func(c *core.Ctx, raw json.RawMessage) {
	return func(c *core.Ctx, raw json.RawMessage) {
		if cliReplay(c, raw) {
			return
		}
		if inner != nil {
			inner(c, raw)
		}
	}
}

func cliConfigs(thorough bool, wide bool) []cliConfig {
	if thorough {
		return []cliConfig{{1, 4, 2}, {1, 5, 2}, {2, 2, 2}, {2, 3, 2}, {2, 4, 1}, {2, 5, 1}, {3, 2, 1}, {3, 3, 1}, {3, 4, 1}, {4, 2, 1}, {2, 2, 3}, {1, 3, 3}}
	}
	if wide {
		return []cliConfig{{1, 4, 2}, {2, 3, 2}, {2, 4, 1}, {3, 2, 1}, {3, 3, 1}}
	}
	return []cliConfig{{1, 4, 2}, {2, 3, 1}, {2, 4, 1}, {3, 2, 1}}
}
