package main

import (
	"strings"

	"github.com/z7zmey/php-parser/pkg/version"
	"github.com/z7zmey/php-parser/verifmc/core"
	"github.com/z7zmey/php-parser/verifmc/corpus"
	"github.com/z7zmey/php-parser/verifmc/drive"
	"github.com/z7zmey/php-parser/verifmc/oracle"
)

// C05 — node positions span exactly the node's own tokens and nest.

func c05One(c *core.Ctx, cs srcCase) {
	setBlock(&cs)
	v := parseVer(cs.Ver)
	res := drive.Parse(cs.Src, v, true)
	disturb()
	if !res.Clean() {
		c.Stat("not_error_free(not judged)", 1)
		return
	}
	n := 0
	for range oracleNodes(res) {
		n++
	}
	c.Stat("nodes_checked", int64(n))
	c.NontrivialH(core.Hash(cs.Ver + string(cs.Src)))
	report(c, oracle.Positions(cs.Src, res.Root, famOf(v)), cs)
}

func c05Run(c *core.Ctx) {
	level := 3
	if c.Thorough() {
		level = 6
	}
	multi := []string{"\n", " /* a\n b */ ", "\r\n//c\r\n"}
	for _, fam := range []string{"php7", "php5"} {
		f := corpus.MustFam(fam)
		for _, it := range validItems(f, level) {
			c.SetAdd("rules_"+fam, itoa(it.Rule))
			var srcs []string
			srcs = append(srcs, it.Src)
			if it.R != nil {
				srcs = append(srcs, corpus.UniqueTrivia(it.R))
				for _, m := range multi {
					srcs = append(srcs, corpus.Layout(it.R, m, "\n "))
				}
			}
			for _, s := range srcs {
				if !c.Next() {
					continue
				}
				cs := mkCase(s, f.V, it.Why)
				c05One(c, cs)
				c.Sample(cs)
			}
			if c.Thorough() {
				forDeviations(it, true, true, func(src, why string) {
					if c.Next() {
						c05One(c, mkCase(src, f.V, why))
					}
				})
			} else if it.Rule >= 0 && countSub(it.Why, "child") < 2 {
				// every alternative spelling of every token of the rule- and 2-path-level programs (multi-line
				// strings, escaped line breaks, number forms: the values decide which position code runs)
				forDeviations(it, false, true, func(src, why string) {
					if why != it.Why && c.Next() {
						c05One(c, mkCase(src, f.V, why))
					}
				})
			}
		}
	}
	for _, fam := range []string{"php7", "php5"} {
		f := corpus.MustFam(fam)
		wideItems(f, true, func(it *corpus.Item, src, why string) {
			if c.Next() {
				c05One(c, mkCase(src, f.V, why))
			}
			if it.R != nil && src == it.Src && c.Next() {
				c05One(c, mkCase(corpus.Layout(it.R, "\r\n//c\r\n", "\n "), f.V, why))
			}
		})
		forPairs(c, f, pairLevel(c), 1, func(p, s *corpus.Item, src string) {
			c05One(c, mkCase(src, f.V, "pair of corpus programs"))
		})
	}
	for _, src := range chainPrograms(c) {
		for _, v := range []*version.Version{drive.V74, drive.V56} {
			if c.Next() {
				c05One(c, mkCase(src, v, "postfix chain"))
			}
		}
	}
	for _, cs := range deepCases(c) {
		if c.Next() {
			c05One(c, cs)
		}
	}
	for _, src := range corpus.Specials() {
		for _, v := range []*version.Version{drive.V74, drive.V56} {
			if !c.Next() {
				continue
			}
			c05One(c, mkCase(src, v, "special head/body/tail or literal form"))
		}
	}
	// multi-line regions (see C04): tokens that contain line terminators of every kind
	for _, tpl := range c04Regions {
		for _, r := range c04RegionTexts(3) {
			for _, v := range []*version.Version{drive.V74, drive.V56} {
				if c.Next() {
					c05One(c, mkCase(strings.Replace(tpl, "R", r, 1), v, "multi-line region with a mix of line terminators"))
				}
			}
		}
	}
}

func init() {
	register(&core.Check{
		Prop: "C05", Level: "exploration", Exhaust: true, QuickSecs: 240, ThorSecs: 2400,
		Rule: "E-lr corpus of both grammars (every rule, every (rule, position, child rule), every empty/non-empty combination of nullable symbols; thorough: 3-paths and all 1-deviations), each in baseline layout, with unique trivia and in three multi-line layouts (so that line fields differ), plus the specials. " +
			"Oracle for every node of an error-free tree: [StartPos,EndPos) == [first start, last end] of the tokens in the node's own subtree (free-floating excluded), lines == reference lines of those offsets, with the four documented conventions (root ignores EndTkn, trait adaptations ignore their semicolon, empty array item has no position, -1 for a boundary formed by an empty statement list); children within parents, siblings disjoint and increasing; a wrong boundary is blamed on the innermost node that has it. non-trivial = error-free tree; distinct by (version, source)",
		Assume: []string{"tokens positions are right (C04)"},
		Run:    c05Run,
		Replay: replaySrc(c05One),
	})
}
