package main

import (
	"github.com/z7zmey/php-parser/verifmc/lexm"
	"strconv"
	"encoding/json"
	"bytes"
	"reflect"
	"strings"

	"github.com/z7zmey/php-parser/pkg/ast"
	"github.com/z7zmey/php-parser/verifmc/astx"
	"github.com/z7zmey/php-parser/verifmc/core"
	"github.com/z7zmey/php-parser/verifmc/corpus"
	"github.com/z7zmey/php-parser/verifmc/drive"
	"github.com/z7zmey/php-parser/verifmc/ebytes"
	"github.com/z7zmey/php-parser/verifmc/oracle"
)

// C07 — a syntax error costs only the statement it is in; recovery never invents, duplicates or reorders text.

type c07ctx struct{ name, open, close string }

var c07Contexts = []c07ctx{
	{"top level", "", ""},
	{"function body", "function f ( ) { ", " }"},
	{"block", "{ ", " }"},
	{"namespace body", "namespace N { ", " }"},
	{"method body", "class C { function m ( ) { ", " } }"},
	{"if body", "if ( $c ) { ", " }"},
}

// malformed statements built from tokens that cannot continue any statement before them
// malformed statements that neither open nor close a bracket or scope: after them the parser must find its
// way back to the statement level, so that the last of two or more well-formed statements that follow is
// in the tree ("parsing continues after it")
var c07Closed = map[string]bool{"1 + ;": true, "$a = ;": true, "=> 1 ;": true, "1 1 ;": true, "new ;": true, "echo , ;": true, "$a = = 1 ;": true, "$a -> ;": true,
	"__halt_compiler ( ;": true, "__halt_compiler ;": true, "__halt_compiler ( ) x ;": true, "<<<A\nx\nA\n 1 ;": true, "\"a $b \" 1 ;": true,
	// the offending token is itself one that switches the scanner's mode
	"$x \"v $y\" ;": true, "$x \"v {$y}\" ;": true, "$x \"v ${y}\" ;": true, "$x \"v $y[0]\" ;": true, "$x `ls $y` ;": true, "$x <<<A\nv $y\nA\n ;": true, "foo ( $x \"v $y z\" ) ;": true, "$x -> -> b ;": true,
	// an opening bracket that is never closed: yacc pops back to the statement level, nothing that follows is inside it
	"foo ( ;": true, "foo ( 1 + ;": true, "$a [ ;": true, "new A ( $b , ;": true, "if ( ;": true}

// a lone closing bracket opens nothing, and yacc's recovery discards it as the offending token; a lone `}` is such a token
// only where no scope is open (top level) — elsewhere it closes the context's own block
func c07IsClosed(m string, ctx c07ctx) bool {
	return c07Closed[m] || m == ")" || m == "]" || (m == "}" && ctx.name == "top level")
}

// statements that push and pop the scanner's mode stack
var c07ModeForms = []string{"\"{$a}\" ;", "\"${a}\" ;", "\"$a[0]\" ;", "\"$a->b\" ;", "\"{$a[\"{$b}\"]}\" ;", "`{$a}` ;", "<<<A\n{$a}\nA\n ;", "<<<A\n$a[0] ${b}\nA\n ;",
	"$a -> b ;", "{ }", "{ { } }", "$f = function ( ) { \"{$a}\" ; } ;", "\"{${a}}\" ;", "\"${a[0]}\" ;"}

var c07Menu = []string{"foo ( 1 + ;", "new A ( $b , ;", "$x \"v $y\" ;", "$x \"v {$y}\" ;", "$x \"v ${y}\" ;", "$x \"v $y[0]\" ;", "$x `ls $y` ;", "$x <<<A\nv $y\nA\n ;", "foo ( $x \"v $y z\" ) ;", "$x -> -> b ;", "__halt_compiler ( ;", "__halt_compiler ;", "__halt_compiler ( ) x ;", "<<<A\nx\nA\n 1 ;", "\"a $b \" 1 ;", "1 + ;", "$a = ;", "foo ( ;", ")", "if ( ;", "class { }", "$a -> ;", "function ( ;", "]", "=> 1 ;", "1 1 ;", "$a [ ;", "new ;", "echo , ;", "$a = = 1 ;", "} }", "}"}

// levelStmts: the statement list in which S1…Sk and M stand (innermost "Stmts" along the first statements).
func levelStmts(root ast.Vertex, depth int) ([]ast.Vertex, bool) {
	cur := root
	for d := 0; ; d++ {
		if astx.IsNil(cur) {
			return nil, false
		}
		v, fs := astx.Elem(cur)
		var list []ast.Vertex
		found := false
		for _, f := range fs {
			if f.Name == "Stmts" && f.Kind == astx.FNodes {
				fv := v.Field(f.Idx)
				for j := 0; j < fv.Len(); j++ {
					if fv.Index(j).IsNil() {
						list = append(list, nil)
					} else {
						list = append(list, fv.Index(j).Interface().(ast.Vertex))
					}
				}
				found = true
			}
		}
		if !found {
			return nil, false
		}
		if d == depth {
			return list, true
		}
		if len(list) == 0 {
			return nil, false
		}
		cur = list[0]
		// a method sits in a class statement list: ClassMethod.Stmt is a StmtStmtList
		if k := astx.KindName(cur); k == "StmtClassMethod" {
			v2, _ := astx.Elem(cur)
			st := v2.FieldByName("Stmt")
			if !st.IsValid() || st.IsNil() {
				return nil, false
			}
			cur = st.Interface().(ast.Vertex)
		}
	}
}

var c07Depth = map[string]int{"top level": 0, "function body": 1, "block": 1, "namespace body": 1, "method body": 2, "if body": 1}

// ifBody: StmtIf keeps its body in Stmt (a StmtStmtList), not in Stmts.
func c07Level(root ast.Vertex, ctx c07ctx) ([]ast.Vertex, bool) {
	if ctx.name == "if body" {
		r, ok := levelStmts(root, 0)
		if !ok || len(r) == 0 || astx.KindName(r[0]) != "StmtIf" {
			return nil, false
		}
		v, _ := astx.Elem(r[0])
		st := v.FieldByName("Stmt")
		if !st.IsValid() || st.IsNil() {
			return nil, false
		}
		return levelStmts(st.Interface().(ast.Vertex), 0)
	}
	return levelStmts(root, c07Depth[ctx.name])
}

type c07Case struct {
	srcCase
	Ctx    int      `json:"ctx"`
	Before []string `json:"before"`
	After  []string `json:"after"`
	M      string   `json:"malformed"`
}

// stmtForms: the statement-level sentences of the corpus (text after the open tag).
func stmtForms(f *corpus.Fam) []string {
	var out []string
	seen := map[string]bool{}
	for _, it := range f.Items(2) {
		if !it.Valid || !it.ScanOK || it.Rule < 0 {
			continue
		}
		r := f.A.Rules[it.Rule]
		if r == nil || !(r.LHS == "statement" || r.LHS == "unticked_statement" || r.LHS == "top_statement" || r.LHS == "inner_statement") {
			continue
		}
		if strings.Count(it.Why, "child") > 0 {
			continue
		}
		s := strings.TrimSpace(strings.TrimPrefix(it.Src, "<?php "))
		if s == "" || strings.Contains(s, "?>") || strings.Contains(s, "__halt_compiler") || strings.HasPrefix(s, "namespace") || strings.HasPrefix(s, "use ") || strings.HasPrefix(s, "const ") {
			continue
		}
		// the form must be a complete statement on its own in every context
		if !seen[s] {
			seen[s] = true
			out = append(out, s)
		}
	}
	return out
}

func c07One(c *core.Ctx, cs c07Case) {
	setBlock(&cs.srcCase)
	v := parseVer(cs.Ver)
	ctx := c07Contexts[cs.Ctx]
	res := drive.Parse(cs.Src, v, true)
	if !res.OK() {
		c.Stat("crashed_or_hung(C01 domain)", 1)
		return
	}
	if res.NErr() == 0 {
		c.Stat("malformed_statement_valid_in_context(not judged)", 1)
		return
	}
	if res.Root == nil {
		c.Stat("no_tree_returned(no recovery)", 1)
		return
	}
	c.Stat("recovered", 1)
	c.NontrivialH(core.Hash(cs.Ver + string(cs.Src)))
	c07Print(c, cs.srcCase, res)
	if c07IsClosed(cs.M, ctx) && len(cs.After) >= 2 {
		// parsing continues: the last well-formed statement after the malformed one is in the list
		last := cs.After[len(cs.After)-1]
		alone := drive.Parse([]byte("<?php "+ctx.open+last+ctx.close), v, true)
		if alone.Clean() {
			wantL, ok1 := c07Level(alone.Root, ctx)
			gotL, ok2 := c07Level(res.Root, ctx)
			if ok1 && len(wantL) == 1 {
				c.Stat("continuations_compared", 1)
				if !ok2 || len(gotL) == 0 || astx.StructFP(gotL[len(gotL)-1]) != astx.StructFP(wantL[0]) {
					c.Report("parsing does not continue after a malformed statement: the last well-formed statement is not in the tree ("+ctx.name+")", mkWhat("malformed %q, last statement %q in %q", cs.M, last, cs.Src), cs)
				} else if all := drive.Parse([]byte("<?php "+ctx.open+strings.Join(cs.After, " ")+ctx.close), v, true); all.Clean() {
					// … and so are the statements between it and the malformed one: the list ends with the statements that
					// follow, each as it is when they are parsed alone
					if wantAll, ok3 := c07Level(all.Root, ctx); ok3 && len(wantAll) > 0 && len(wantAll) <= len(gotL) {
						tail := gotL[len(gotL)-len(wantAll):]
						for i := range wantAll {
							if astx.StructFP(tail[i]) != astx.StructFP(wantAll[i]) {
								c.Report("parsing does not continue after a malformed statement: a well-formed statement that follows it is missing or changed ("+ctx.name+")", mkWhat("malformed %q, statement %d of the %d that follow in %q", cs.M, i+1, len(wantAll), cs.Src), cs)
								break
							}
						}
						c.Stat("following_statements_compared", int64(len(wantAll)))
					} else if ok3 && len(wantAll) > len(gotL) {
						c.Report("parsing does not continue after a malformed statement: a well-formed statement that follows it is missing or changed ("+ctx.name+")", mkWhat("malformed %q: %d statements follow, the list has %d in %q", cs.M, len(wantAll), len(gotL), cs.Src), cs)
					}
				}
			}
		}
	}
	if len(cs.Before) == 0 {
		return
	}
	// baseline: the well-formed prefix alone, same context
	prefix := "<?php " + ctx.open + strings.Join(cs.Before, " ")
	if !strings.HasPrefix(string(cs.Src), prefix) {
		return
	}
	base := drive.Parse([]byte(prefix+ctx.close), v, true)
	if !base.Clean() {
		c.Stat("prefix_not_valid_alone(not judged)", 1)
		return
	}
	want, ok1 := c07Level(base.Root, ctx)
	got, ok2 := c07Level(res.Root, ctx)
	if !ok1 || len(want) != len(cs.Before) {
		c.Stat("prefix_statement_count_unexpected(not judged)", 1)
		return
	}
	c.Stat("prefixes_compared", 1)
	if !ok2 || len(got) < len(want) {
		c.Report("recovery loses well-formed statements before the error ("+ctx.name+")", mkWhat("%d of %d statements kept in %q", len(got), len(want), cs.Src), cs)
		return
	}
	for i := range want {
		if l, w := astx.Diff(want[i], got[i], true); l != "" {
			c.Report("recovery changes a well-formed statement before the error ("+ctx.name+"): "+l, mkWhat("statement %d: %s in %q", i, w, cs.Src), cs)
			return
		}
	}
	// parsing continued to the end of the input
	if r, ok := res.Root.(*ast.Root); ok && (r.EndTkn == nil) {
		c.Report("parse did not reach the end of the input after recovery", mkWhat("%q", cs.Src), cs)
	}
}

// c07Garbage: unexpected characters x in gap g of a valid program.
func c07Garbage(c *core.Ctx, f *corpus.Fam, it *corpus.Item, g int, x string) {
	// the tokens of the source: what the scanner makes of the program without the unexpected characters, moved by the
	// length of the insertion behind it
	var sb strings.Builder
	at, old := 0, 0
	for j, p := range it.R.Pieces {
		if j == g {
			at, old = sb.Len(), len(p.Text)
			sb.WriteString(x)
			continue
		}
		sb.WriteString(p.Text)
	}
	intended := map[int]string{}
	for _, t := range it.RealToks {
		if t.Position == nil {
			continue
		}
		off := t.Position.StartPos
		if off >= at+old {
			off += len(x) - old
		}
		intended[off] = string(t.Value)
	}
	cs := mkCase(sb.String(), f.V, "unexpected characters between two tokens: "+it.Why)
	setBlock(&cs)
	res := drive.Parse(cs.Src, f.V, true)
	if !res.OK() {
		c.Stat("crashed_or_hung(C01 domain)", 1)
		return
	}
	if res.Root == nil || res.NErr() == 0 {
		c.Stat("garbage_no_tree_or_no_error(not judged)", 1)
		return
	}
	c.Stat("recovered", 1)
	c.Stat("garbage_programs", 1)
	c.NontrivialH(core.Hash(cs.Ver + string(cs.Src)))
	c07Print(c, cs, res)
	for _, tr := range astx.Tokens(res.Root) {
		t := tr.Tok
		if tr.Free || t == nil || len(t.Value) == 0 || t.Position == nil {
			continue
		}
		if want, ok := intended[t.Position.StartPos]; !ok || want != string(t.Value) {
			c.Report("tree returned despite errors holds text that is not a token of the source ("+astx.KindName(tr.Owner)+"."+tr.Field+")", mkWhat("token %q at %d in %q", t.Value, t.Position.StartPos, cs.Src), cs)
			return
		}
	}
}

// c07Print: tokens of a tree returned despite errors — source text, at most once, in source order; the
// printed bytes are their concatenation (plus the printer's own glue).
func c07Print(c *core.Ctx, cs srcCase, res drive.Result) {
	for _, vv := range oracle.Tokens(cs.Src, res.Root, false) {
		c.Report("tree returned despite errors: "+vv.Key, vv.What, cs)
	}
	out, pan := oracle.Print(res.Root)
	if pan != nil {
		c.Report("printer panics on a tree returned despite errors: "+drive.PanicMsg(pan), mkWhat("%q", cs.Src), cs)
		return
	}
	// the output must be the tokens' texts in order, separated by nothing but printer glue
	var texts [][]byte
	var refs []astx.TokRef
	for _, tr := range astx.Tokens(res.Root) {
		if len(tr.Tok.Value) > 0 {
			texts = append(texts, tr.Tok.Value)
			refs = append(refs, tr)
		}
	}
	if far, ok := matchTokens(out, texts); !ok {
		at := "the end"
		if far < len(refs) {
			at = "token " + strconv.Quote(string(texts[far])) + " of " + astx.KindName(refs[far].Owner) + "." + refs[far].Field
		}
		c.Report("printed text of a tree returned despite errors is not its tokens in order plus glue", mkWhat("cannot match %s in output %q of %q", at, out, cs.Src), cs)
	}
}

var printerGlue = [][]byte{[]byte("<?php "), []byte("?>"), []byte(" ")}

// matchTokens: is out == glue* t0 glue* t1 … glue*? Returns the furthest token index reached.
func matchTokens(out []byte, toks [][]byte) (int, bool) {
	type key struct{ off, i int }
	dead := map[key]bool{}
	far := 0
	var rec func(off, i int) bool
	rec = func(off, i int) bool {
		if i > far {
			far = i
		}
		if i == len(toks) && off == len(out) {
			return true
		}
		k := key{off, i}
		if dead[k] {
			return false
		}
		if i < len(toks) && bytes.HasPrefix(out[off:], toks[i]) && rec(off+len(toks[i]), i+1) {
			return true
		}
		for _, g := range printerGlue {
			if bytes.HasPrefix(out[off:], g) && rec(off+len(g), i) {
				return true
			}
		}
		dead[k] = true
		return false
	}
	ok := rec(0, 0)
	return far, ok
}

// isGlue: what the printer may add by itself between tokens of a tree with holes — blanks, an open tag, a
// close tag, or the canonical lexeme of an absent token (punctuation/keywords of the vocabulary).
func isGlue(b []byte) bool {
	s := string(b)
	for _, g := range []string{"<?php ", "?>", " "} {
		s = strings.Replace(s, g, "", -1)
	}
	return s == ""
}

func c07Run(c *core.Ctx) {
	k := 2
	for _, fam := range []string{"php7", "php5"} {
		f := corpus.MustFam(fam)
		forms := stmtForms(f)
		c.Max("statement_forms_"+fam, int64(len(forms)))
		for ci, ctx := range c07Contexts {
			// lists S1 S2 (thorough S1 S2 S3 over a reduced form set), M at every boundary
			var lists [][]string
			for _, a := range forms {
				lists = append(lists, []string{a})
				for _, b := range forms {
					lists = append(lists, []string{a, b})
				}
			}
			if c.Thorough() {
				k = 3
				for i, a := range forms {
					for _, b := range forms {
						for j, d := range forms {
							if (i+j)%3 == 0 {
								lists = append(lists, []string{a, b, d})
							}
						}
					}
				}
			}
			for _, l := range lists {
				for pos := 0; pos <= len(l); pos++ {
					for _, m := range c07Menu {
						if m == "}" && ctx.name != "top level" {
							continue // it would close the context's own block: not a malformed statement of this list
						}
						if !c.Next() {
							continue
						}
						parts := append(append(append([]string{}, l[:pos]...), m), l[pos:]...)
						src := "<?php " + ctx.open + strings.Join(parts, " ") + ctx.close
						cs := c07Case{srcCase: mkCase(src, f.V, "statement list with a malformed statement in "+ctx.name), Ctx: ci, Before: l[:pos], After: l[pos:], M: m}
						c07One(c, cs)
						c.Sample(cs)
					}
				}
			}
		}
		// the input ends inside the malformed statement (an open bracket or block): if a tree comes back at all, the statements
		// before it must be in it where they belong
		for ci, ctx := range c07Contexts {
			for _, a := range forms {
				for _, b := range append([]string{""}, forms...) {
					for _, m := range []string{"foo (", "function g ( ) { foo (", "if ( $x ) {", "$a = [ 1 ,", "class D { function m ( ) {", "\"x {$a"} {
						if !c.Next() {
							continue
						}
						before := []string{a}
						if b != "" {
							before = append(before, b)
						}
						src := "<?php " + ctx.open + strings.Join(before, " ") + " " + m
						cs := c07Case{srcCase: mkCase(src, f.V, "input ends inside a malformed statement in "+ctx.name), Ctx: ci, Before: before, M: m}
						c.Stat("truncated_lists", 1)
						c07One(c, cs)
					}
				}
			}
		}
		// the scanner keeps a stack of modes (blocks, interpolation, heredocs, property names): statements that push and
		// pop it, alone and in pairs, before every malformed statement after which parsing must continue, followed by
		// two plain statements — recovery has to find the statement level again whatever the stack has been through
		for ci, ctx := range c07Contexts {
			var befores [][]string
			for _, a := range c07ModeForms {
				befores = append(befores, []string{a})
				for _, b := range c07ModeForms {
					befores = append(befores, []string{a, b})
				}
			}
			for _, a := range forms {
				for _, b := range c07ModeForms {
					befores = append(befores, []string{a, b}, []string{b, a})
				}
			}
			for _, l := range befores {
				for _, m := range c07Menu {
					if !c07IsClosed(m, ctx) || !c.Next() {
						continue
					}
					after := []string{"$x = 1 ;", ";", "bar ( 3 ) ;", "{ ; }", "$y ;"}
					parts := append(append(append([]string{}, l...), m), after...)
					src := "<?php " + ctx.open + strings.Join(parts, " ") + ctx.close
					cs := c07Case{srcCase: mkCase(src, f.V, "malformed statement after statements that use the scanner's mode stack, in "+ctx.name), Ctx: ci, Before: l, After: after, M: m}
					c.Stat("mode_stack_lists", 1)
					c07One(c, cs)
				}
			}
		}
		// bytes the scanner reports as unexpected characters (a warning, not a syntax error), alone and in runs, in every
		// PHP-mode gap of every rule-level program, touching the next token, the previous one, or neither: the tokens of
		// the tree that comes back must be tokens of the source — the lexemes the program was written down with
		for _, it := range validItems(f, 1) {
			if !it.AsIntended || it.R == nil {
				continue
			}
			for _, g := range corpus.Gaps(it.R) {
				if it.R.Pieces[g].Mode != "php" && it.R.Pieces[g].Mode != "" || it.R.Pieces[g].Gap != lexm.GapFree {
					continue
				}
				for _, x := range []string{"\x04", "\x01\x02", "\x7f\x00\x1f", " \x04", "\x04 ", "\x04\n"} {
					if !c.Next() {
						continue
					}
					c07Garbage(c, f, it, g, x)
				}
			}
		}
		// every corpus program (up to pairs of positions and sibling lists) on which a tree comes back together
		// with errors — syntax errors of driver-invalid sentences and semantic errors reported by grammar actions
		wideItems(f, false, func(it *corpus.Item, src, why string) {
			if !c.Next() {
				return
			}
			cs := mkCase(src, f.V, "corpus program: "+why)
			setBlock(&cs)
			res := drive.Parse(cs.Src, f.V, true)
			if res.OK() && res.Root != nil && res.NErr() > 0 {
				c.Stat("recovered", 1)
				c.Stat("corpus_programs_with_errors_and_tree", 1)
				c.NontrivialH(core.Hash(cs.Ver + string(cs.Src)))
				c07Print(c, cs, res)
			}
		})
		for _, src := range c01Semantic {
			if !c.Next() {
				continue
			}
			cs := mkCase(src, f.V, "program with a semantic (grammar-action) error")
			setBlock(&cs)
			res := drive.Parse(cs.Src, f.V, true)
			if res.OK() && res.Root != nil && res.NErr() > 0 {
				c.Stat("recovered", 1)
				c07Print(c, cs, res)
			}
		}
		// every driver-invalid cell program and corpus sentence that still yields a tree: print oracle
		forCells(c, f, cellTails, func(cl cell) {
			if cl.It.Valid {
				return
			}
			cs := mkCase(cl.It.Src, f.V, "LR error cell")
			setBlock(&cs)
			res := drive.Parse(cs.Src, f.V, true)
			if res.OK() && res.Root != nil && res.NErr() > 0 {
				c.Stat("recovered", 1)
				c.NontrivialH(core.Hash(cs.Ver + string(cs.Src)))
				c07Print(c, cs, res)
			}
		})
	}
	n := 2
	if c.Thorough() {
		n = 3
	}
	forBytes(c, ebytes.Sigma, n, ebytes.Contexts, func(src string, _ int) {
		cs := mkCase(src, drive.V74, "E-bytes")
		setBlock(&cs)
		res := drive.Parse(cs.Src, drive.V74, true)
		if res.OK() && res.Root != nil && res.NErr() > 0 {
			c.Stat("recovered", 1)
			c.NontrivialH(core.Hash(cs.Ver + string(cs.Src)))
			c07Print(c, cs, res)
		}
	})
	_ = k
	_ = reflect.TypeOf
}

func init() {
	register(&core.Check{
		Prop: "C07", Level: "exploration", Exhaust: true, QuickSecs: 400, ThorSecs: 3000,
		Rule: "statement lists S1 [S2 [S3]] over every statement form of the rule-level corpus of each grammar, in six contexts (top level, function body, block, namespace body, method body, if body), with each of 21 malformed statements (built from tokens that cannot continue a preceding statement) inserted at every boundary; plus every corpus program and grammar-action error program that yields a tree together with errors, every LR error cell (3 tails) and every E-bytes input (<= 2/3 symbols, 15 contexts) on which a tree comes back together with errors. " +
			"Oracle when errors were reported and a tree returned: (1) the statement list of that level starts with the trees of the statements before the error, identical in kinds, values, tokens and positions to parsing `<?php ctx S1…Si` alone; (2) the root has its end token, and after a malformed statement that neither opens nor closes a bracket the last of >= 2 following statements is in the list (parsing continues); (3) every token of the tree holds the source bytes at its offsets, offsets increase in print order without overlap, and the printed bytes are exactly those tokens in that order plus printer glue (blank, open/close tag). non-trivial = recovered parse; distinct by (version, source)",
		Assume: []string{"which statements after the malformed one survive is not demanded"},
		Run:    c07Run,
		Replay: func(c *core.Ctx, raw json.RawMessage) {
			var cs c07Case
			if json.Unmarshal(raw, &cs) == nil && cs.Mode == "src" {
				c07One(c, cs)
			}
		},
	})
}
