package main

import (
	"github.com/z7zmey/php-parser/pkg/ast"
	"github.com/z7zmey/php-parser/verifmc/astx"
	"encoding/json"
	"fmt"
	"strconv"
	"strings"

	"github.com/z7zmey/php-parser/pkg/errors"
	"github.com/z7zmey/php-parser/pkg/version"
	"github.com/z7zmey/php-parser/verifmc/core"
	"github.com/z7zmey/php-parser/verifmc/corpus"
	"github.com/z7zmey/php-parser/verifmc/drive"
	"github.com/z7zmey/php-parser/verifmc/oracle"
)

// srcCase: one program under one version — the replayable unit of every input-driven check.
type srcCase struct {
	Mode  string `json:"mode"` // "src"
	Ver   string `json:"ver"`
	Src   []byte `json:"src"`
	Text  string `json:"text"` // the same bytes, readable
	Why   string `json:"why,omitempty"`
	Block int    `json:"pool_block,omitempty"`
	Base  []byte `json:"base,omitempty"` // baseline program (C08, C07)
	NoCB  bool   `json:"no_callback,omitempty"`
	Aux   string `json:"aux,omitempty"`
}

func mkCase(src string, v *version.Version, why string) srcCase {
	return srcCase{Mode: "src", Ver: verStr(v), Src: []byte(src), Text: clipS(strconv.Quote(src), 400), Why: why}
}

func verStr(v *version.Version) string {
	if v == nil {
		return "nil"
	}
	return fmt.Sprintf("%d.%d", v.Major, v.Minor)
}

func parseVer(s string) *version.Version {
	if s == "nil" || s == "" {
		return nil
	}
	var a, b uint64
	fmt.Sscanf(s, "%d.%d", &a, &b)
	return &version.Version{Major: a, Minor: b}
}

func famOf(v *version.Version) string {
	if v != nil && v.Major == 5 {
		return "php5"
	}
	return "php7"
}

const smallBlock = 3

func setBlock(cs *srcCase) {
	if cs.Block > 0 {
		drive.SetBlockSize(cs.Block)
	} else {
		drive.SetBlockSize(smallBlock)
	}
}

func report(c *core.Ctx, vs []oracle.V, cs srcCase) {
	for _, v := range vs {
		c.Report(v.Key, v.What, cs)
	}
}

// panicKey: finding signature of a crash.
func panicKey(res *drive.Result) string {
	if res.Hang {
		return "hang: step budget exceeded"
	}
	return "panic in " + res.PanicLoc + ": " + drive.PanicMsg(res.Panic)
}

var famVersions = map[string][]*version.Version{
	"php7": {drive.V74, drive.V(7, 0), drive.V72, drive.V(7, 3)},
	"php5": {drive.V56, drive.V(5, 0)},
}

func replaySrc(fn func(c *core.Ctx, cs srcCase)) func(c *core.Ctx, raw json.RawMessage) {
	return func(c *core.Ctx, raw json.RawMessage) {
		var cs srcCase
		if json.Unmarshal(raw, &cs) == nil && cs.Mode == "src" {
			fn(c, cs)
		}
	}
}

// bigPrograms: corpus statements concatenated until the program has more than n tokens, so that the
// production pools (blocks of 1024) are crossed for real.
func bigPrograms(f *corpus.Fam, minTokens int) []string {
	var out []string
	var b strings.Builder
	b.WriteString("<?php ")
	ntok := 0
	for _, it := range f.Items(2) {
		if !it.Valid || !it.ScanOK || strings.Contains(it.Src, "__halt_compiler") || strings.Contains(it.Src, "?>") || strings.Contains(it.Src, "namespace") {
			continue
		}
		body := strings.TrimPrefix(it.Src, "<?php ")
		b.WriteString(body)
		b.WriteString("\n")
		ntok += len(it.Real) + 2*len(it.Real)
		if ntok > minTokens {
			out = append(out, b.String())
			b.Reset()
			b.WriteString("<?php ")
			ntok = 0
		}
	}
	return out
}

func oracleNodes(res drive.Result) []ast.Vertex { return astx.PreOrder(res.Root) }

func mkWhat(format string, a ...interface{}) string { return clipS(fmt.Sprintf(format, a...), 600) }

func countSub(s, sub string) int { return strings.Count(s, sub) }

// errList: canonical text of an error list (message and position of each error, in delivery order).
func errList(es []*errors.Error) string {
	var b strings.Builder
	for _, e := range es {
		if e == nil {
			b.WriteString("<nil>;")
			continue
		}
		b.WriteString(e.Msg)
		if e.Pos != nil {
			fmt.Fprintf(&b, "@%d:%d-%d:%d", e.Pos.StartLine, e.Pos.StartPos, e.Pos.EndLine, e.Pos.EndPos)
		}
		b.WriteString(";")
	}
	return b.String()
}

// disturb: another parse between the parse of a program and the look at its tree — a tree must stay what it is while the
// library goes on working (pools, builders and buffers recycled too early show only then). Alternates between the two
// parsers and between a clean and a malformed program.
var disturbN int

func disturb() {
	disturbN++
	src := []byte("<?php namespace N; use A\\B; class C extends D { function m(E $e = null) { return [$e->f(1, \"x$y\"), <<<T\n$z\nT\n]; } } $q = ;")
	if disturbN%2 == 0 {
		src = src[:len(src)-7]
	}
	v := drive.V74
	if disturbN%4 >= 2 {
		v = drive.V56
	}
	drive.Parse(src, v, disturbN%3 != 0)
}
