package main

import (
	"bytes"
	"encoding/json"
	"fmt"
	"sort"
	"strings"

	"github.com/z7zmey/php-parser/pkg/ast"
	"github.com/z7zmey/php-parser/pkg/version"
	"github.com/z7zmey/php-parser/pkg/visitor"
	"github.com/z7zmey/php-parser/pkg/visitor/dumper"
	"github.com/z7zmey/php-parser/pkg/visitor/nsresolver"
	"github.com/z7zmey/php-parser/pkg/visitor/printer"
	"github.com/z7zmey/php-parser/pkg/visitor/traverser"
	"github.com/z7zmey/php-parser/verifmc/astx"
	"github.com/z7zmey/php-parser/verifmc/core"
	"github.com/z7zmey/php-parser/verifmc/corpus"
	"github.com/z7zmey/php-parser/verifmc/drive"
)

// C13 — print, dump, traverse, resolve never modify the tree (E-hist: every operation sequence up to a
// depth, breadth-first, states = deep snapshots).

type c13op struct {
	name string
	fn   func(r ast.Vertex) string
}

func safeOp(fn func(r ast.Vertex) string) func(r ast.Vertex) string {
	return func(r ast.Vertex) (out string) {
		defer func() {
			if p := recover(); p != nil {
				out = "PANIC: " + drive.PanicMsg(p)
			}
		}()
		return fn(r)
	}
}

var c13ops = []c13op{
	{"print", safeOp(func(r ast.Vertex) string {
		b := &bytes.Buffer{}
		r.Accept(printer.NewPrinter(b))
		return b.String()
	})},
	{"dump+tokens+positions", safeOp(func(r ast.Vertex) string {
		b := &bytes.Buffer{}
		dumper.NewDumper(b).WithTokens().WithPositions().Dump(r)
		return b.String()
	})},
	{"dump", safeOp(func(r ast.Vertex) string {
		b := &bytes.Buffer{}
		dumper.NewDumper(b).Dump(r)
		return b.String()
	})},
	{"traverse(Null)", safeOp(func(r ast.Vertex) string {
		traverser.NewTraverser(&visitor.Null{}).Traverse(r)
		return ""
	})},
	{"resolve", safeOp(func(r ast.Vertex) string { return resolveStr(r) })},
}

// resolveStr: the resolver's table as sorted "kind@start=name" lines.
func resolveStr(r ast.Vertex) string {
	v := nsresolver.NewNamespaceResolver()
	traverser.NewTraverser(v).Traverse(r)
	var out []string
	for n, s := range v.ResolvedNames {
		st := -2
		if p := n.GetPosition(); p != nil {
			st = p.StartPos
		}
		out = append(out, fmt.Sprintf("%s@%d=%s", astx.KindName(n), st, s))
	}
	sort.Strings(out)
	return strings.Join(out, "\n")
}

type c13Case struct {
	Mode string   `json:"mode"` // "hist"
	Ver  string   `json:"ver"`
	Src  []byte   `json:"src"`
	Text string   `json:"text"`
	Ops  []string `json:"ops"`
}

// c13Tree explores all operation sequences of length <= depth on the tree of one program.
func c13Tree(c *core.Ctx, src []byte, ver string, depth int, only []string) {
	v := parseVer(ver)
	parse := func() ast.Vertex {
		res := drive.Parse(src, v, true)
		if !res.OK() || res.Root == nil {
			return nil
		}
		return res.Root
	}
	fresh := parse()
	if fresh == nil {
		c.Stat("no_tree(not judged)", 1)
		return
	}
	c.Stat("trees", 1)
	c.NontrivialH(core.Hash(ver + string(src)))
	snap0 := astx.Snapshot(&fresh)
	if s2 := parse(); astx.Snapshot(&s2) != snap0 {
		// determinism of parsing (the C11 half that needs no scheduler)
		c.Report("two parses of the same input give different snapshots", mkWhat("%q", src), c13Case{"hist", ver, src, string(src), nil})
	}
	base := make([]string, len(c13ops))
	for i, op := range c13ops {
		base[i] = op.fn(parse())
	}
	states := map[uint64]bool{core.Hash(snap0): true}
	// replaying a path on a fresh tree = the successor function (live trees cannot be cloned)
	var rec func(path []int)
	check := func(path []int) bool {
		c.Touch() // one history is the unit of work for the wall watchdog, not the whole tree
		root := parse()
		for k, oi := range path {
			out := c13ops[oi].fn(root)
			if k < len(path)-1 {
				continue // prefixes were checked when they were the whole path
			}
			c.P.Trans++
			names := opNames(path)
			cs := c13Case{"hist", ver, src, string(src), names}
			if out != base[oi] {
				c.Report("output of "+c13ops[oi].name+" differs from its output on a fresh tree after "+strings.Join(names[:len(names)-1], ","),
					mkWhat("fresh: %q now: %q in %q", clipS(base[oi], 120), clipS(out, 120), src), cs)
			}
			sn := astx.Snapshot(&root)
			h := core.Hash(sn)
			if !states[h] {
				states[h] = true
			}
			if sn != snap0 {
				c.Report("tree modified by "+c13ops[oi].name, mkWhat("after %v on %q: %s", names, src, firstDiffStr(snap0, sn)), cs)
				return false
			}
		}
		return true
	}
	rec = func(path []int) {
		if len(path) > 0 && !check(path) {
			return
		}
		if len(path) == depth {
			return
		}
		for i := range c13ops {
			rec(append(path, i))
		}
	}
	if only != nil {
		var p []int
		for _, n := range only {
			for i, op := range c13ops {
				if op.name == n {
					p = append(p, i)
				}
			}
		}
		for k := 1; k <= len(p); k++ {
			check(p[:k])
		}
	} else {
		rec(nil)
	}
	c.P.States += int64(len(states))
	c.Max("max_states_per_tree(must be 1)", int64(len(states)))
}

func opNames(path []int) []string {
	out := make([]string, len(path))
	for i, p := range path {
		out[i] = c13ops[p].name
	}
	return out
}

func firstDiffStr(a, b string) string {
	i := 0
	for i < len(a) && i < len(b) && a[i] == b[i] {
		i++
	}
	lo := i - 60
	if lo < 0 {
		lo = 0
	}
	ha, hb := i+40, i+40
	if ha > len(a) {
		ha = len(a)
	}
	if hb > len(b) {
		hb = len(b)
	}
	return fmt.Sprintf("snapshot before …%s… after …%s…", a[lo:ha], b[lo:hb])
}

func c13Run(c *core.Ctx) {
	depth, level := 3, 2
	if c.Thorough() {
		depth, level = 4, 3
	}
	for _, fam := range []string{"php7", "php5"} {
		f := corpus.MustFam(fam)
		for _, it := range f.Items(level) {
			if !it.ScanOK {
				continue
			}
			srcs := []string{it.Src}
			if it.R != nil && it.Valid {
				srcs = append(srcs, corpus.UniqueTrivia(it.R))
			}
			for _, s := range srcs {
				if !c.Next() {
					continue
				}
				setBlock(&srcCase{})
				c13Tree(c, []byte(s), verStr(f.V), depth, nil)
				c.Sample(c13Case{"hist", verStr(f.V), []byte(s), s, []string{"all sequences up to depth", itoa(depth)}})
			}
		}
	}
	// pairs of positions (level 5 only), shallow
	for _, fam := range []string{"php7", "php5"} {
		f := corpus.MustFam(fam)
		for _, it := range f.Items(6) {
			if it.ScanOK && (countSub(it.Why, "pair") > 0 || countSub(it.Why, "list") > 0) && c.Next() {
				setBlock(&srcCase{})
				c13Tree(c, []byte(it.Src), verStr(f.V), 2, nil)
			}
		}
	}
	// every single-import program of the name-resolution model: resolve, then each operation once more
	forNSPrograms(func(src string, v *version.Version) {
		if !c.Next() {
			return
		}
		setBlock(&srcCase{})
		c13ResolveThen(c, []byte(src), verStr(v))
	})
	for _, cs := range deepCases(c) {
		// the thorough tier's deepest programs (3000 and 2000-with-strings levels) are left to the checks that look at a tree once: a
		// dump indents every line by its depth, so the outputs compared here grow with the square of the depth (hundreds
		// of megabytes per operation; a worker ran into the 3 GB heap backstop)
		if strings.Contains(cs.Why, "n=3000") || strings.Contains(cs.Why, "2000 block levels") {
			continue
		}
		if c.Next() {
			drive.SetBlockSize(drive.ProdBlock)
			c13Tree(c, cs.Src, cs.Ver, 2, nil)
			setBlock(&srcCase{})
		}
	}
	// name-resolution-heavy and error-carrying programs
	for _, s := range c13Extra {
		for _, v := range []string{"7.4", "5.6"} {
			if !c.Next() {
				continue
			}
			setBlock(&srcCase{})
			d := depth + 2
			if len(s) > 600 {
				d = depth + 1 // the long-token programs: one level less (every history replays the whole program)
			}
			if d > 5 {
				d = 5 // 5^6 histories of one tree in one worker exceeded the 3 GB heap backstop in the thorough tier
			}
			c13Tree(c, []byte(s), v, d, nil)
		}
	}
}

var c13Extra = []string{
	"<?php namespace App; use Foo\\Constraints as Assert; new Assert\\NotBlank(); Assert\\f(); echo Assert\\C; function g(Assert\\T $p): Assert\\R {}",
	"<?php use Foo\\Bar\\{Baz, Qux as Q, function f, const C}; new Baz; new Q\\Sub; f(); C; Foo \\ Bar\\/* c */Baz::m(); namespace\\ X \\ Y::z();",
	"<?php namespace A\\B { use C\\D as E; class F extends E\\G implements E, \\H { use E\\T { E\\T::m insteadof \\U; } } } namespace { new A\\B\\F; }",
	"<?php namespace A\\B; use X\\Y as Z, Q\\R; use function F\\g; use const C\\D; class K extends Z implements R { use T; function m(Z $a, ?int $b): R { return new Z(g(), D); } } function h() {} const E = 1;",
	"<?php namespace A { class B extends \\C { } } namespace { new B; foo(); BAR; }",
	"<?php use A\\{B, C as D, function e, const F}; new B; new D; e(); F; try { } catch (B | D $x) { } finally { }",
	"<?php $a = 1 +; class { } function f( { } $b = 2;",
	"<?php if ($a) : ?>html<?php elseif ($b): else: endif; echo \"x $a[0] {$b->c} ${d}\", <<<E\n $a\nE\n;",
	"<?php $f = fn(A $x): ?B => static function () use (&$y): C { yield from [1, 2 => 3]; }; list($a, list($b)) = [1, [2]];",
	// several candidates for one lookup: repeated resolution must give the same names every time
	"<?php use Lib\\Http\\Client; use Vendor\\Net\\CLIENT; use function A\\foo; use function B\\FOO; use const C\\K; use const D\\k; new client; new Client\\X; Foo(); echo K, k;",
	"<?php namespace N; use A\\{B, b as C, c}; use A\\B as c; new b; new C; new B\\D; function f(c $x): B {}",
	"<?php use FUNCTION Foo\\bar; use CONST Foo\\BAZ; use A\\{Function f, CONST C, D}; use Function A\\{g}; bar(); BAZ; f(); C; new D; g();",
	// a name is referenced in one namespace and imported (plain, typed, in a mixed group) in a later one: what an operation
	// learns in one place must not be there when the same place is visited again
	"<?php namespace App\\Http { route(); echo LIMIT; new Mailer; } namespace App\\Support { use Lib\\{Mailer, function route, const LIMIT}; route(); echo LIMIT; new Mailer; }",
	"<?php namespace App\\Http; route(); echo LIMIT; new Mailer; namespace App\\Support; use function Lib\\route; use const Lib\\LIMIT; use Lib\\Mailer; route(); echo LIMIT; new Mailer;",
	"<?php route(); echo LIMIT; new Mailer; define('App\\\\VERSION', \"a\\\"b\"); use Lib\\{Mailer, function route, const LIMIT}; route(); echo LIMIT, 'it\\'s', \"q\\\\\"; new Mailer;",
	// long tokens and long data (an operation that shortens, caches or rewrites what it shows must do so on its own copy)
	"<?php $a; __halt_compiler();0123456789abcdef0123456789abcdef0",
	"<?php __halt_compiler();\n" + strings.Repeat("0123456789abcdef", 20) + "\n<?php not code",
	"<?php $s = '" + strings.Repeat("0123456789abcdef", 20) + "'; $t = \"" + strings.Repeat("x", 300) + " $v " + strings.Repeat("y", 300) + "\"; /* " + strings.Repeat("c", 300) + " */ $u = <<<A\n" + strings.Repeat("z", 300) + "\nA;\n",
	strings.Repeat("<p>html</p>\n", 30) + "<?php $a ?>" + strings.Repeat("x", 300),
	"#!shebang\n<html><?= $a ?>\n<?php /** doc */ abstract class A { const X = 1, Y = 2; public static $p = [1]; abstract protected function m(); } __halt_compiler(); tail",
}

func init() {
	register(&core.Check{
		Prop: "C13", Level: "exploration", Exhaust: true, QuickSecs: 300, ThorSecs: 2400,
		Rule: "for the tree of every rule-level and 2-path E-lr program of both grammars ( with and without trivia; trees returned with errors included) and of ten hand-written resolver/interpolation/error programs: every sequence over {print, dump+tokens+positions, dump, traverse(Null), resolve} of length <= 3 (quick) / <= 4 (thorough); the extras two deeper (at most 5), explored depth-first by replaying the path on a freshly parsed tree; plus every single-import program of the name-resolution model (226 k programs) with resolve followed by resolve, print and dump. " +
			"Oracle after every step: the step's output equals the same operation's output on a fresh tree, and a deep reflection snapshot (all fields, slice lengths and capacities, pointer-graph shape, token bytes) equals the snapshot of the fresh tree; also two parses of the same input give equal snapshots. states = distinct snapshots seen (must equal trees), transitions = operation applications judged. non-trivial = a tree was returned; distinct by (version, source)",
		Assume: []string{"a panic inside an operation is an output like any other (it must then panic identically on a fresh tree)"},
		Run:    c13Run,
		Replay: func(c *core.Ctx, raw json.RawMessage) {
			var cs c13Case
			if json.Unmarshal(raw, &cs) == nil && cs.Mode == "hist" {
				setBlock(&srcCase{})
				c13Tree(c, cs.Src, cs.Ver, len(cs.Ops), cs.Ops)
			}
		},
	})
}

// c13ResolveThen: resolve, then resolve, print and dump on the same tree; every output must equal the output on
// a fresh tree and the snapshot must not change (lean version of c13Tree for the 226 k M-ns programs).
func c13ResolveThen(c *core.Ctx, src []byte, ver string) {
	v := parseVer(ver)
	parse := func() ast.Vertex {
		res := drive.Parse(src, v, true)
		if !res.OK() || res.Root == nil {
			return nil
		}
		return res.Root
	}
	t := parse()
	if t == nil {
		return
	}
	c.Stat("trees", 1)
	c.NontrivialH(core.Hash(ver + string(src)))
	find := func(name string) c13op {
		for _, op := range c13ops {
			if op.name == name {
				return op
			}
		}
		panic("no op " + name)
	}
	snap0 := astx.Snapshot(&t)
	path := []string{"resolve", "resolve", "print", "dump+tokens+positions"}
	for k, name := range path {
		op := find(name)
		fresh := op.fn(parse())
		out := op.fn(t)
		c.P.Trans++
		cs := c13Case{"hist", ver, src, string(src), path[:k+1]}
		if out != fresh {
			c.Report("output of "+name+" differs from its output on a fresh tree after "+strings.Join(path[:k], ","), mkWhat("fresh: %q now: %q in %q", clipS(fresh, 120), clipS(out, 120), src), cs)
			return
		}
		if k == 0 || k == len(path)-1 {
			if sn := astx.Snapshot(&t); sn != snap0 {
				c.Report("tree modified by "+name, mkWhat("after %v on %q: %s", path[:k+1], src, firstDiffStr(snap0, sn)), cs)
				return
			}
		}
	}
	c.P.States++
}
