// check <Cxx> [--tier quick|thorough] [--replay file]
package main

import (
	"fmt"
	"os"
	"sort"

	"github.com/z7zmey/php-parser/verifmc/core"
	"github.com/z7zmey/php-parser/verifmc/drive"
)

var registry = map[string]*core.Check{}

func register(c *core.Check) { registry[c.Prop] = c }

func main() {
	// small pool blocks from the start: the corpus keeps the scanner's tokens of every program, and a token
	// pins the whole block it lives in (production blocks: 100 KB per program)
	drive.SetBlockSize(smallBlock)
	if len(os.Args) < 2 {
		usage()
	}
	id := os.Args[1]
	tier := os.Getenv("VERIF_TIER")
	replay := ""
	for i := 2; i < len(os.Args); i++ {
		switch os.Args[i] {
		case "--tier":
			i++
			tier = os.Args[i]
		case "--replay":
			i++
			replay = os.Args[i]
		}
	}
	if tier != "thorough" {
		tier = "quick"
	}
	ck := registry[id]
	if ck == nil {
		usage()
	}
	os.Exit(core.Main(ck, tier, replay))
}

func usage() {
	var ids []string
	for k := range registry {
		ids = append(ids, k)
	}
	sort.Strings(ids)
	fmt.Fprintln(os.Stderr, "usage: check <id> [--tier quick|thorough] [--replay file]; ids:", ids)
	os.Exit(2)
}
