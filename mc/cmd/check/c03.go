package main

import (
	"bytes"
	"strconv"
	"strings"

	"github.com/z7zmey/php-parser/pkg/ast"
	"github.com/z7zmey/php-parser/pkg/token"
	"github.com/z7zmey/php-parser/pkg/version"
	"github.com/z7zmey/php-parser/verifmc/astx"
	"github.com/z7zmey/php-parser/verifmc/core"
	"github.com/z7zmey/php-parser/verifmc/corpus"
	"github.com/z7zmey/php-parser/verifmc/drive"
	"github.com/z7zmey/php-parser/verifmc/lexm"
	"github.com/z7zmey/php-parser/verifmc/slotm"
	"github.com/z7zmey/php-parser/verifmc/synm"
)

// C03 — valid programs are accepted and yield the tree PHP prescribes.
//
// cs.Aux: "valid" (generic oracles only), "sx:<expected>" (first statement must render as <expected>),
// "sxall:<expected>" (all statements), "invalid" (M-syn rejects: at least one error), "kinds:<baseline>"
// (same structure as the baseline program in cs.Base), "gate" (valid under 7.x, rejected under 5.x).

func firstStmtSX(root ast.Vertex) string {
	r, ok := root.(*ast.Root)
	if !ok || r == nil || len(r.Stmts) == 0 {
		return "<no statement>"
	}
	if e, ok := r.Stmts[0].(*ast.StmtExpression); ok && e != nil {
		return synm.SX(e.Expr)
	}
	return synm.SX(r.Stmts[0])
}

func allStmtsSX(root ast.Vertex) string {
	r, ok := root.(*ast.Root)
	if !ok || r == nil {
		return "<no root>"
	}
	var out []string
	for _, s := range r.Stmts {
		out = append(out, synm.SX(s))
	}
	return strings.Join(out, " ; ")
}

// vocabCheck — (g2): every present token's text must be allowed for the (kind, slot) that holds it.
func vocabCheck(c *core.Ctx, cs srcCase, root ast.Vertex) {
	for _, n := range astx.PreOrder(root) {
		k := astx.KindName(n)
		v, fs := astx.Elem(n)
		for _, f := range fs {
			var toks []*token.Token
			switch f.Kind {
			case astx.FTok:
				if t := v.Field(f.Idx).Interface().(*token.Token); t != nil {
					toks = append(toks, t)
				}
			case astx.FToks:
				fv := v.Field(f.Idx)
				for j := 0; j < fv.Len(); j++ {
					if t := fv.Index(j).Interface().(*token.Token); t != nil {
						toks = append(toks, t)
					}
				}
			default:
				continue
			}
			voc := slotm.Lookup(k, f.Name)
			if voc == nil {
				continue
			}
			for _, t := range toks {
				c.Stat("token_slots_checked_against_vocabulary", 1)
				if !voc.Allowed(string(t.Value)) {
					c.Report("token text not allowed in its slot: "+k+"."+f.Name, mkWhat("%q (allowed: %v) in %q", t.Value, voc.Canon, cs.Src), cs)
				}
			}
		}
	}
}

func c03One(c *core.Ctx, cs srcCase) {
	setBlock(&cs)
	v := parseVer(cs.Ver)
	res := drive.Parse(cs.Src, v, true)
	if !res.OK() {
		c.Stat("crashed_or_hung(C01 domain)", 1)
		return
	}
	c.NontrivialH(core.Hash(cs.Ver + cs.Aux + string(cs.Src)))
	c.P.Trans++ // one model verdict replayed on the implementation
	fam := famOf(v)
	if cs.Aux == "invalid" {
		c.Stat("model_invalid_programs", 1)
		if res.NErr() == 0 {
			c.Report("program PHP rejects is accepted ("+fam+", "+cs.Why+")", mkWhat("%q", cs.Src), cs)
		}
		return
	}
	c.Stat("model_valid_programs", 1)
	if res.NErr() > 0 || res.Root == nil {
		if loneCROnly(cs.Src, &res) {
			c.Report("a lone CR between tokens is reported as an unexpected character", mkWhat("%q", cs.Src), cs)
			return
		}
		if semanticOnly(&res) {
			// the grammar accepts the program and an action reports what PHP reports at compile time
			c.Stat("grammar_valid_programs_with_semantic_errors(not judged)", 1)
			return
		}
		c.Report("valid program rejected ("+fam+", "+cs.Why+")", mkWhat("%s in %q under %s", errList(res.Errs), cs.Src, cs.Ver), cs)
		return
	}
	vocabCheck(c, cs, res.Root)
	// every byte of an accepted program sits in exactly one token of the tree (a token that is in no slot is a role PHP
	// prescribes and the tree does not have: a by-reference mark, a modifier, a separator). Heredocs are left to C02/C04
	// (the test-pinned defect of the empty 7.3+ heredoc loses a byte).
	if !bytes.Contains(cs.Src, []byte("<<<")) {
		n := 0
		for _, tr := range astx.Tokens(res.Root) {
			n += len(tr.Tok.Value)
		}
		if n != len(cs.Src) {
			c.Report("accepted program: the tokens of the tree do not add up to the source ("+fam+", "+cs.Why+")", mkWhat("%d of %d bytes in %q", n, len(cs.Src), cs.Src), cs)
		}
	}
	switch {
	case strings.HasPrefix(cs.Aux, "sx:"):
		want := cs.Aux[3:]
		if got := firstStmtSX(res.Root); got != want {
			c.Report("tree differs from the one PHP prescribes ("+fam+", "+cs.Why+")", mkWhat("%q: expected %s, got %s", cs.Src, want, got), cs)
		}
		c.Stat("trees_compared_with_model", 1)
	case strings.HasPrefix(cs.Aux, "sxall:"):
		want := cs.Aux[6:]
		if got := allStmtsSX(res.Root); got != want {
			c.Report("tree differs from the one PHP prescribes ("+fam+", "+cs.Why+")", mkWhat("%q: expected %s, got %s", cs.Src, want, got), cs)
		}
		c.Stat("trees_compared_with_model", 1)
	case cs.Aux == "same-structure":
		base := drive.Parse(cs.Base, v, true)
		if base.Clean() {
			// the same tree up to the letter case and inner blanks of keywords kept verbatim as values
			fold := func(r ast.Vertex) string { return strings.ToLower(strings.Join(strings.Fields(allStmtsSX(r)), "")) }
			if a, b := fold(base.Root), fold(res.Root); a != b {
				c.Report("alternative spelling changes the tree ("+fam+", "+cs.Why+")", mkWhat("%q vs %q: %s vs %s", cs.Base, cs.Src, clipS(a, 200), clipS(b, 200)), cs)
			}
			c.Stat("trees_compared_with_model", 1)
		}
	case cs.Aux == "same-kinds":
		base := drive.Parse(cs.Base, v, true)
		if base.Clean() {
			if a, b := kindSkeleton(base.Root), kindSkeleton(res.Root); a != b {
				c.Report("alternative literal form changes node kinds ("+fam+", "+cs.Why+")", mkWhat("%q vs %q: %s vs %s", cs.Base, cs.Src, clipS(a, 150), clipS(b, 150)), cs)
			}
			c.Stat("trees_compared_with_model", 1)
		}
	}
}

// semanticOnly: every reported error comes from a grammar action (compile-time rules of PHP), none from yacc
// or the scanner.
func semanticOnly(res *drive.Result) bool {
	if res.NErr() == 0 {
		return false
	}
	for _, e := range res.Errs {
		if e == nil || strings.HasPrefix(e.Msg, "syntax error") || strings.HasPrefix(e.Msg, "WARNING") {
			return false
		}
	}
	return true
}

func kindSkeleton(root ast.Vertex) string {
	var b strings.Builder
	for _, n := range astx.PreOrder(root) {
		b.WriteString(astx.KindName(n))
		b.WriteByte(' ')
	}
	return b.String()
}

// ---------------------------------------------------------------------------------------------
// flat expressions

type c03Inf struct {
	t   synm.Tok
	txt string
}

func c03Exprs(c *core.Ctx, fam5 bool, maxOps int, fn func(toks []synm.Tok, txt []string)) {
	var infixes []c03Inf
	for i, b := range synm.BinOps {
		if fam5 && b.Only7 {
			continue
		}
		infixes = append(infixes, c03Inf{synm.Tok{Typ: "bin", Lex: b.Lex, I: i}, b.Lex})
	}
	for i, a := range synm.AssignOps {
		if fam5 && a.Only7 {
			continue
		}
		infixes = append(infixes, c03Inf{synm.Tok{Typ: "assign", Lex: a.Lex, I: i}, a.Lex})
	}
	infixes = append(infixes, c03Inf{synm.Tok{Typ: "qcolon", Lex: "?:"}, "?:"}, c03Inf{synm.Tok{Typ: "inst", Lex: "instanceof"}, "instanceof"}, c03Inf{synm.Tok{Typ: "q", Lex: "?"}, "?"})
	type pre struct {
		toks []synm.Tok
		txt  []string
		ops  int
		post bool
	}
	prefixes := []pre{{}}
	for i, o := range synm.PrefOps {
		prefixes = append(prefixes, pre{toks: []synm.Tok{{Typ: "pre", Lex: o.Lex, I: i}}, txt: []string{o.Lex}, ops: 1})
	}
	prefixes = append(prefixes, pre{toks: []synm.Tok{{Typ: "preinc", Lex: "++"}}, txt: []string{"++"}, ops: 1}, pre{toks: []synm.Tok{{Typ: "preinc", Lex: "--"}}, txt: []string{"--"}, ops: 1},
		pre{ops: 1, post: true})
	// two stacked prefix operators (`- --$a`, `!(int)$a`, `-- -$a`, `@new …`): every ordered pair
	single := append([]pre{}, prefixes[1:len(prefixes)-1]...)
	for _, a := range single {
		for _, b := range single {
			prefixes = append(prefixes, pre{toks: append(append([]synm.Tok{}, a.toks...), b.toks...), txt: append(append([]string{}, a.txt...), b.txt...), ops: 2})
		}
	}
	atoms := []string{"$a", "$b", "$c", "$d", "$e", "$f", "$g", "$h", "$i"}
	var gen func(toks []synm.Tok, txt []string, ops int, ai int)
	gen = func(toks []synm.Tok, txt []string, ops int, ai int) {
		for _, pf := range prefixes {
			o := ops + pf.ops
			if o > maxOps {
				continue
			}
			t2 := append(append([]synm.Tok{}, toks...), pf.toks...)
			x2 := append(append([]string{}, txt...), pf.txt...)
			t2 = append(t2, synm.Tok{Typ: "atom", Lex: atoms[ai]})
			x2 = append(x2, atoms[ai])
			if pf.post {
				t2 = append(t2, synm.Tok{Typ: "postinc", Lex: "++"})
				x2 = append(x2, "++")
			}
			fn(t2, x2)
			if o >= maxOps {
				continue
			}
			for _, in := range infixes {
				t3 := append(append([]synm.Tok{}, t2...), in.t)
				x3 := append(append([]string{}, x2...), in.txt)
				switch in.t.Typ {
				case "inst":
					t3 = append(t3, synm.Tok{Typ: "cls", Lex: "X"})
					x3 = append(x3, "X")
					fn(t3, x3)
					if o+1 < maxOps {
						for _, in2 := range infixes {
							t4 := append(append([]synm.Tok{}, t3...), in2.t)
							x4 := append(append([]string{}, x3...), in2.txt)
							switch in2.t.Typ {
							case "inst":
								t4 = append(t4, synm.Tok{Typ: "cls", Lex: "Y"})
								x4 = append(x4, "Y")
								fn(t4, x4)
							case "q":
							default:
								gen(t4, x4, o+2, ai+1)
							}
						}
					}
				case "q":
					t3 = append(t3, synm.Tok{Typ: "atom", Lex: atoms[ai+1]}, synm.Tok{Typ: "colon", Lex: ":"})
					x3 = append(x3, atoms[ai+1], ":")
					gen(t3, x3, o+1, ai+2)
				default:
					gen(t3, x3, o+1, ai+1)
				}
			}
		}
	}
	gen(nil, nil, 0, 0)
}

// ---------------------------------------------------------------------------------------------
// dangling else: every if/else nesting without braces; the tree fixes which if owns each else

type ifT struct {
	atom     string
	then, el *ifT
}

func (t *ifT) open() bool { // ends with an if that has no else (an else after it would bind to that if)
	if t.then == nil {
		return false
	}
	if t.el == nil {
		return true
	}
	return t.el.open()
}

func (t *ifT) src(n *int) string {
	if t.then == nil {
		return t.atom + ";"
	}
	*n++
	s := "if ($c" + itoa(*n) + ") " + t.then.src(n)
	if t.el != nil {
		s += " else " + t.el.src(n)
	}
	return s
}

func (t *ifT) sx(n *int) string {
	if t.then == nil {
		return "StmtExpression(Expr:" + t.atom + ")"
	}
	*n++
	s := "StmtIf(Cond:$c" + itoa(*n) + " Stmt:" + t.then.sx(n)
	if t.el != nil {
		s += " Else:StmtElse(Stmt:" + t.el.sx(n) + ")"
	}
	return s + ")"
}

func ifTrees(depth int) []*ifT {
	if depth == 0 {
		return []*ifT{{atom: "$x"}}
	}
	sub := ifTrees(depth - 1)
	out := []*ifT{{atom: "$x"}}
	for _, a := range sub {
		out = append(out, &ifT{then: a})
		if a.open() {
			continue // `if (c) <open if> else …` would give the else to the inner if: not expressible without braces
		}
		for _, b := range sub {
			out = append(out, &ifT{then: a, el: b})
		}
	}
	return out
}

// ---------------------------------------------------------------------------------------------

func c03Run(c *core.Ctx) {
	// A. generic: driver-valid corpus programs and their lexeme alternatives
	level := 2
	if c.Thorough() {
		level = 6
	}
	for _, fam := range []string{"php7", "php5"} {
		f := corpus.MustFam(fam)
		for _, it := range validItems(f, level) {
			for _, v := range famVersions[fam] {
				if !c.Next() {
					continue
				}
				cs := mkCase(it.Src, v, "sentence accepted by the reference LR driver")
				cs.Aux = "valid"
				c.P.Traces++
				c03One(c, cs)
				c.Sample(cs)
			}
			if !it.AsIntended || (!c.Thorough() && countSub(it.Why, "child") > 1) {
				continue
			}
			for i, t := range it.Toks {
				alts := lexm.Lexemes[t]
				if t == "T_NUM_STRING" {
					continue // the kind of a string offset depends on its spelling (decimal: number, otherwise: string) — schemas cover it
				}
				for k := 1; k < len(alts); k++ {
					r := lexm.Render(it.Toks, map[int]string{i: alts[k]})
					if !r.OK || !c.Next() {
						continue
					}
					cs := mkCase(r.Source(), f.V, "alternative lexeme "+strconv.Quote(alts[k])+" of "+t)
					cs.Base = []byte(it.Src)
					cs.Aux = "same-kinds"
					if strings.EqualFold(strings.Join(strings.Fields(alts[k]), ""), strings.Join(strings.Fields(alts[0]), "")) || strings.HasSuffix(t, "_CAST") || t == "T_IS_NOT_EQUAL" {
						cs.Aux = "same-structure" // letter case, inner blanks, synonyms: the very same tree
					}
					c03One(c, cs)
				}
			}
		}
	}
	for _, fam := range []string{"php7", "php5"} {
		f := corpus.MustFam(fam)
		wideItems(f, true, func(it *corpus.Item, src, why string) {
			if c.Next() {
				cs := mkCase(src, f.V, "sentence accepted by the reference LR driver")
				cs.Aux = "valid"
				c.P.Traces++
				c03One(c, cs)
			}
		})
		// E-pairs: the statements of each program inside the pair are what they are alone
		forPairs(c, f, pairLevel(c), 1, func(p, s *corpus.Item, src string) {
			cs := mkCase(src, f.V, "pair of corpus programs accepted by the reference LR driver")
			cs.Aux = "valid"
			c.P.Traces++
			c03One(c, cs)
			pairContext(c, f, p, s, src)
		})
	}
	c03Chains(c)
	c03Heredocs(c)
	// B. operators
	maxOps := 3
	if c.Thorough() {
		maxOps = 4
	}
	for _, fam5 := range []bool{false, true} {
		v := drive.V74
		if fam5 {
			v = drive.V56
		}
		c03Exprs(c, fam5, maxOps, func(toks []synm.Tok, txt []string) {
			if !c.Next() {
				return
			}
			src := "<?php " + strings.Join(txt, " ") + ";"
			cs := mkCase(src, v, "flat operator expression")
			if want, ok := synm.Parse(toks); ok {
				cs.Aux = "sx:" + want
			} else {
				cs.Aux = "invalid"
				cs.Why = "flat operator expression rejected by the precedence model"
			}
			c03One(c, cs)
			c.P.States++
		})
	}
	// C. construct schemas, D. dangling else, E. literals, F. version gating
	for _, s := range synm.Schemas {
		for _, v := range schemaVersions(s) {
			if !c.Next() {
				continue
			}
			cs := mkCase("<?php "+s.Src, v, "construct schema `"+s.Src+"`")
			if strings.HasPrefix(s.Src, "RAW:") { // the whole file, not a body after the open tag
				cs = mkCase(s.Src[4:], v, "construct schema `"+s.Src+"`")
			}
			cs.Aux = s.Kind + ":" + s.Want
			if s.Kind == "invalid" {
				cs.Aux = "invalid"
				cs.Why = "construct PHP rejects `" + s.Src + "`"
			}
			c03One(c, cs)
		}
	}
	depth := 3
	if c.Thorough() {
		depth = 4
	}
	for _, t := range ifTrees(depth) {
		for _, v := range []*version.Version{drive.V74, drive.V56} {
			if !c.Next() {
				continue
			}
			n1, n2 := 0, 0
			cs := mkCase("<?php "+t.src(&n1), v, "if/else nesting without braces")
			cs.Aux = "sxall:" + t.sx(&n2)
			c03One(c, cs)
		}
	}
	for _, g := range synm.Gated {
		for _, v := range []*version.Version{drive.V(7, 0), drive.V(7, 1), drive.V72, drive.V(7, 3), drive.V74, nil, drive.V(5, 0), drive.V(5, 3), drive.V(5, 5), drive.V56} {
			if !c.Next() {
				continue
			}
			okHere := g.Since.Major == 0 || v == nil || (v.Major == g.Since.Major && v.Minor >= g.Since.Minor)
			if g.Until != nil {
				okHere = v != nil && v.Major == g.Until.Major
			}
			cs := mkCase("<?php "+g.Src, v, "version-gated syntax: "+g.What)
			if okHere {
				cs.Aux = "valid"
			} else {
				cs.Aux = "invalid"
			}
			c03One(c, cs)
		}
	}
}

func schemaVersions(s synm.Schema) []*version.Version {
	switch s.Fam {
	case "7":
		return []*version.Version{drive.V74, drive.V(7, 0)}
	case "7.4":
		return []*version.Version{drive.V74}
	case "5":
		return []*version.Version{drive.V56}
	case "<=7.2":
		return []*version.Version{drive.V72, drive.V(7, 0)}
	case "7.3+":
		return []*version.Version{drive.V74, drive.V(7, 3)}
	}
	return []*version.Version{drive.V74, drive.V56}
}

func init() {
	register(&core.Check{
		Prop: "C03", Level: "model_checking", Exhaust: true, QuickSecs: 500, ThorSecs: 3000,
		Rule: "A (generic): every sentence of the E-lr corpora the reference LR driver accepts (rules, 2-paths; thorough: nullable combinations, 3-paths) under every version of its family, and every token replaced by every alternative lexeme (letter case, cast spellings, synonyms => the very same tree; literal forms => the same node kinds): zero errors, every token's text allowed by the slot vocabulary for the (kind, slot) holding it. " +
			"B (operators): every flat expression with <= 3 (thorough 4) operators over 28 binary, 14 assignment, 18 prefix operators, ++/--, both ternaries and instanceof, distinct atoms, under 7.4 and 5.6: the tree must equal the one an independent precedence-climbing model of the PHP manual's operator table gives, and expressions the model rejects (non-associative chains) must be rejected. " +
			"B2: every postfix chain of <= 5 (thorough 6) operations (property, method call, offsets, call, static members) on a variable and on a name: accepted iff the reference LR driver accepts it, and under PHP 7 the tree of a chain on a variable is the left-to-right fold. E-heredoc: every heredoc/nowdoc body of <= 4 (thorough 5) fragments over 17 fragments (label, label+digit/letter/underscore, blanks, LF/CRLF/CR, `;` `)` `,`, interpolations) under 7.4/7.3/7.2/5.6: the node must end at the closing label a reference model of the manual's rules finds (before 7.3: alone at line start, optional `;`, line terminator; from 7.3: indented, closed by a non-identifier character), and unterminated heredocs must be reported. C: hand-written construct schemas (source => expected kind(role:child) rendering) for the constructs whose roles can be confused; D: every if/else nesting without braces to depth 3 (thorough 4) — else belongs to the nearest if; E: literal forms (int/float classification at the overflow boundary, radix prefixes, separators, strings, heredoc/nowdoc parts verbatim); F: version-gated constructs under 10 versions. " +
			"states = flat expressions enumerated and judged by the operator model, transitions = model verdicts (accept/reject/expected tree) replayed on the real parser, traces = corpus sentences classified by the reference LR driver and replayed. non-trivial = program parsed; distinct by (version, expectation, source)",
		Assume: []string{"M-syn (mc/synm) transcribes the PHP manual: operator table, construct shapes, literal forms, version gating"},
		Run:    c03Run,
		Replay: replaySrc(c03One),
	})
}

// chainSX: the tree PHP 7 prescribes for a postfix chain on a variable — operations apply left to right
// (uniform variable syntax).
func chainSX(ch corpus.Chain) string {
	cur := ch.Base
	if cur == "(new A)" {
		cur = "Brackets(Expr:New(Class:A))"
	}
	prevKind, prevOperand := "", ""
	for _, o := range ch.Ops {
		before := cur
		if o.Kind == "call" {
			// `X->b()`, `X->$p()`, `X::c()` and `X::$s()` are calls of the member, not of the fetched value
			switch prevKind {
			case "prop":
				cur = "MethodCall(Var:" + prevOperand + " Method:b)"
				prevKind = "method"
				continue
			case "propv":
				cur = "MethodCall(Var:" + prevOperand + " Method:$p)"
				prevKind = "method"
				continue
			case "cconst":
				cur = "StaticCall(Class:" + prevOperand + " Call:c)"
				prevKind = "scall"
				continue
			case "sprop":
				cur = "StaticCall(Class:" + prevOperand + " Call:$s)"
				prevKind = "scall"
				continue
			}
		}
		prevKind, prevOperand = o.Kind, before
		switch o.Kind {
		case "prop":
			cur = "PropertyFetch(Var:" + cur + " Prop:b)"
		case "propv":
			cur = "PropertyFetch(Var:" + cur + " Prop:$p)"
		case "method":
			cur = "MethodCall(Var:" + cur + " Method:b)"
		case "dim":
			cur = "ArrayDimFetch(Var:" + cur + " Dim:int:0)"
		case "dimc":
			cur = "ArrayDimFetch(Var:" + cur + " Dim:int:1)"
		case "call":
			cur = "FunctionCall(Function:" + cur + ")"
		case "cconst":
			cur = "ClassConstFetch(Class:" + cur + " Const:c)"
		case "sprop":
			cur = "StaticPropertyFetch(Class:" + cur + " Prop:$s)"
		case "scall":
			cur = "StaticCall(Class:" + cur + " Call:m)"
		}
	}
	return cur
}

// c03Chains: postfix chains — validity from the reference LR driver (both families); for PHP 7 chains on a
// variable the expected tree is the left-to-right fold.
func c03Chains(c *core.Ctx) {
	n := 5
	if c.Thorough() {
		n = 6
	}
	f7, f5 := corpus.MustFam("php7"), corpus.MustFam("php5")
	for _, ch := range corpus.ChainExprs(n) {
		if !c.Next() {
			continue
		}
		src := "<?php " + ch.Expr + ";"
		for _, f := range []*corpus.Fam{f7, f5} {
			it := f.FromSource(src, "postfix chain")
			if !it.ScanOK {
				continue
			}
			c.P.Traces++
			cs := mkCase(src, f.V, "postfix chain accepted by the reference LR driver")
			switch {
			case !it.Valid:
				cs.Aux, cs.Why = "invalid", "postfix chain rejected by the reference LR driver"
			case f == f7 && (ch.Base == "$a" || ch.Base == "(new A)"):
				cs.Aux = "sx:" + chainSX(ch)
				cs.Why = "postfix chain (left-to-right fold)"
			case f == f5 && (ch.Base == "$a" || ch.Base == "(new A)") && php5Fold(ch):
				// property fetches, method calls, offsets and calls on a plain variable apply left to right in
				// PHP 5 as well (the differences of uniform variable syntax need `$$`, `->$p[`, or `::`)
				cs.Aux = "sx:" + chainSX(ch)
				cs.Why = "postfix chain (left-to-right fold)"
			default:
				cs.Aux = "valid"
			}
			c03One(c, cs)
		}
	}
}

func php5Fold(ch corpus.Chain) bool {
	for _, o := range ch.Ops {
		switch o.Kind {
		case "prop", "method", "dim", "dimc", "call":
		default:
			return false
		}
	}
	return true
}
