package main

import (
	"fmt"
	"os"
	"os/exec"
	"strings"
	"sync"

	"github.com/z7zmey/php-parser/internal/verifhook"
	"github.com/z7zmey/php-parser/verifmc/core"
	"github.com/z7zmey/php-parser/verifmc/corpus"
	"github.com/z7zmey/php-parser/verifmc/drive"
)

// The free-running pass: the same pipeline bodies on real goroutines without the cooperative scheduler, in a
// binary built with -race. It complements E-sched (which is blind to unsynchronised accesses between its
// yield points); it samples and never decides on its own that the property holds.

func raceJobs() []c11Job {
	var jobs []c11Job
	for _, sc := range c11Scenarios {
		jobs = append(jobs, sc.Jobs...)
	}
	for i, s := range corpus.Specials() {
		if i%97 == 0 {
			jobs = append(jobs, c11Job{s, []string{"7.4", "5.6", "7.2"}[i%3]})
		}
	}
	return jobs
}

// racePass is the body of `check racepass` (run in the -race binary).
func racePass() int {
	verifhook.Point, verifhook.Tick = nil, nil
	drive.SetBlockSize(drive.ProdBlock)
	jobs := raceJobs()
	base := make([]string, len(jobs))
	for i, j := range jobs {
		base[i] = c11Pipeline(nil, j, c11Full)
	}
	const G, rounds = 16, 6
	var wg sync.WaitGroup
	var mu sync.Mutex
	bad := 0
	for g := 0; g < G; g++ {
		wg.Add(1)
		go func(g int) {
			defer wg.Done()
			for r := 0; r < rounds; r++ {
				for k := range jobs {
					i := (k*7 + g*13 + r) % len(jobs)
					if out := c11Pipeline(nil, jobs[i], c11Full); out != base[i] {
						mu.Lock()
						bad++
						if bad <= 3 {
							fmt.Printf("DIFF job %d (%q): %s\n", i, jobs[i].Src, firstDiffStr(base[i], out))
						}
						mu.Unlock()
					}
				}
			}
		}(g)
	}
	wg.Wait()
	fmt.Printf("racepass: %d goroutines x %d rounds x %d pipelines, %d results differ from the sequential baseline\n", G, rounds, len(jobs), bad)
	if bad > 0 {
		return 1
	}
	return 0
}

// runRacePass is called by one worker of C11: executes the -race binary and reports what it says.
func runRacePass(c *core.Ctx) {
	bin := os.Getenv("VERIF_RACE_BIN")
	if bin == "" {
		c.Note("race pass skipped: no -race binary (VERIF_RACE_BIN unset)")
		return
	}
	cmd := exec.Command(bin, "racepass")
	cmd.Env = append(os.Environ(), "GORACE=halt_on_error=0 exitcode=0", "GOMAXPROCS=16", "VERIF_WORKER=")
	out, err := cmd.CombinedOutput()
	s := string(out)
	c.Stat("race_pass_runs", 1)
	if n := strings.Count(s, "WARNING: DATA RACE"); n > 0 {
		i := strings.Index(s, "WARNING: DATA RACE")
		c.Report("data race reported by the race detector (free-running pass): "+raceSite(s[i:]), clipS(s[i:], 900), nil)
	}
	if strings.Contains(s, "DIFF job") {
		i := strings.Index(s, "DIFF job")
		c.Report("free-running goroutines: a pipeline result differs from its sequential result", clipS(s[i:], 600), nil)
	}
	if err != nil && !strings.Contains(s, "racepass:") {
		c.Note("race pass binary failed: " + err.Error() + ": " + clipS(s, 300))
	}
	if i := strings.Index(s, "racepass:"); i >= 0 {
		c.Note(strings.TrimSpace(s[i:]))
	}
}

// raceSite: the first repository function in a race report (finding key).
func raceSite(rep string) string {
	for _, l := range strings.Split(rep, "\n") {
		l = strings.TrimSpace(l)
		if strings.HasPrefix(l, "github.com/z7zmey/php-parser/") && !strings.Contains(l, "verifmc") {
			if i := strings.LastIndex(l, "("); i > 0 {
				l = l[:i]
			}
			return strings.TrimPrefix(l, "github.com/z7zmey/php-parser/")
		}
	}
	return "?"
}

func init() {
	if len(os.Args) > 1 && os.Args[1] == "racepass" {
		os.Exit(racePass())
	}
	if len(os.Args) > 1 && os.Args[1] == "poolrace" {
		os.Exit(poolRacePass())
	}
}
