package main

import (
	"fmt"
	"os"
	"os/exec"
	"strings"
	"sync"
	"time"

	"github.com/z7zmey/php-parser/internal/verifhook"
	"github.com/z7zmey/php-parser/verifmc/core"
	"github.com/z7zmey/php-parser/verifmc/corpus"
	"github.com/z7zmey/php-parser/verifmc/drive"
)

// The free-running pass: the same pipeline bodies on real goroutines without the cooperative scheduler, in a
// binary built with -race. It complements E-sched (which is blind to unsynchronised accesses between its
// yield points); it samples and never decides on its own that the property holds.

func raceJobs() []c11Job {
	var jobs []c11Job
	for _, sc := range c11Scenarios {
		jobs = append(jobs, sc.Jobs...)
	}
	for i, s := range corpus.Specials() {
		if i%97 == 0 {
			jobs = append(jobs, c11Job{s, []string{"7.4", "5.6", "7.2"}[i%3]})
		}
	}
	// deep nesting and long chains: tables and buffers that grow with the depth of a tree grow for the first time while
	// other goroutines use them
	for i, s := range corpus.DeepPrograms(24) {
		jobs = append(jobs, c11Job{s, []string{"7.4", "5.6"}[i%2]})
	}
	return jobs
}

// racePass is the body of `check racepass` (run in the -race binary). The goroutines start together on a cold process —
// nothing of the library has run yet, so lazily built package-level state (tables, caches, pools) is first touched
// concurrently; the sequential baselines are computed afterwards. VERIF_RACE_ROT rotates which pipeline every goroutine
// starts with, so that several cold starts meet different first uses.
func racePass() int {
	verifhook.Point, verifhook.Tick = nil, nil
	drive.SetBlockSize(drive.ProdBlock)
	jobs := raceJobs()
	rot := 0
	fmt.Sscanf(os.Getenv("VERIF_RACE_ROT"), "%d", &rot)
	const G, rounds = 16, 2
	type obs struct {
		job int
		h   uint64
	}
	outs := make([][]obs, G)
	start := make(chan struct{})
	var wg sync.WaitGroup
	for g := 0; g < G; g++ {
		wg.Add(1)
		go func(g int) {
			defer wg.Done()
			<-start
			for r := 0; r < rounds; r++ {
				for k := range jobs {
					// even rotations: every goroutine walks the pipelines from another start; odd rotations: all of them walk the
					// same sequence, so that whatever is built on first use is first used by all of them at once
					i := (k*7 + g*13 + r + rot*5) % len(jobs)
					if rot%2 == 1 {
						i = (k*7 + r + rot*5) % len(jobs)
					}
					outs[g] = append(outs[g], obs{i, core.Hash(c11Pipeline(nil, jobs[i], c11Full))})
				}
			}
		}(g)
	}
	close(start)
	wg.Wait()
	base := make([]uint64, len(jobs))
	for i, j := range jobs {
		base[i] = core.Hash(c11Pipeline(nil, j, c11Full))
	}
	bad := 0
	for g := range outs {
		for _, o := range outs[g] {
			if o.h != base[o.job] {
				bad++
				if bad <= 3 {
					fmt.Printf("DIFF job %d (%q): the result on goroutine %d differs from the sequential result\n", o.job, jobs[o.job].Src, g)
				}
			}
		}
	}
	fmt.Printf("racepass: cold start, %d goroutines x %d rounds x %d pipelines (rotation %d), %d results differ from the sequential baseline\n", G, rounds, len(jobs), rot, bad)
	if bad > 0 {
		return 1
	}
	return 0
}

// runRacePass is called by one worker of C11: executes the -race binary and reports what it says.
func runRacePass(c *core.Ctx) {
	bin := os.Getenv("VERIF_RACE_BIN")
	if bin == "" {
		c.Note("race pass skipped: no -race binary (VERIF_RACE_BIN unset)")
		return
	}
	runs := 8
	if c.Thorough() {
		runs = 24
	}
	// one run of the -race binary is one long item: the wall watchdog of ordinary items does not apply (a loaded machine
	// must not turn a slow run into an alarm)
	oldWall := c.WallPerItem
	c.WallPerItem = 20 * time.Minute
	defer func() { c.WallPerItem = oldWall }()
	s := ""
	var err error
	for rot := 0; rot < runs; rot++ {
		cmd := exec.Command(bin, "racepass")
		cmd.Env = append(os.Environ(), "GORACE=halt_on_error=0 exitcode=0", "GOMAXPROCS=16", "VERIF_WORKER=", fmt.Sprintf("VERIF_RACE_ROT=%d", rot))
		out, e := cmd.CombinedOutput()
		if e != nil && !strings.Contains(string(out), "racepass:") {
			// the process died (the runtime aborts on concurrent map access): that is a result, not a harness problem
			if strings.Contains(string(out), "fatal error: concurrent map") {
				c.Report("free-running goroutines: the Go runtime aborts the process (concurrent map access)", clipS(string(out), 600), nil)
			}
			err = e
		}
		s += string(out)
		c.Stat("race_pass_runs", 1)
		c.Touch()
	}
	if n := strings.Count(s, "WARNING: DATA RACE"); n > 0 {
		i := strings.Index(s, "WARNING: DATA RACE")
		c.Report("data race reported by the race detector (free-running pass): "+raceSite(s[i:]), clipS(s[i:], 900), nil)
	}
	if strings.Contains(s, "DIFF job") {
		i := strings.Index(s, "DIFF job")
		c.Report("free-running goroutines: a pipeline result differs from its sequential result", clipS(s[i:], 600), nil)
	}
	if err != nil && !strings.Contains(s, "racepass:") {
		c.Note("race pass binary failed: " + err.Error() + ": " + clipS(s, 300))
	}
	if i := strings.Index(s, "racepass:"); i >= 0 {
		c.Note(strings.TrimSpace(s[i:]))
	}
}

// raceSite: the first repository function in a race report (finding key).
func raceSite(rep string) string {
	for _, l := range strings.Split(rep, "\n") {
		l = strings.TrimSpace(l)
		if strings.HasPrefix(l, "github.com/z7zmey/php-parser/") && !strings.Contains(l, "verifmc") {
			if i := strings.LastIndex(l, "("); i > 0 {
				l = l[:i]
			}
			return strings.TrimPrefix(l, "github.com/z7zmey/php-parser/")
		}
	}
	return "?"
}

func init() {
	if len(os.Args) > 1 && os.Args[1] == "racepass" {
		os.Exit(racePass())
	}
	if len(os.Args) > 1 && os.Args[1] == "poolrace" {
		os.Exit(poolRacePass())
	}
}
