package main

import (
	"encoding/json"
	"fmt"
	"unsafe"

	"github.com/z7zmey/php-parser/pkg/position"
	"github.com/z7zmey/php-parser/pkg/token"
	"github.com/z7zmey/php-parser/verifmc/core"
)

// C18 — E-hist over both pools: for every block size in the tier's set and every request count up to
// 3·size+2 the history Get^k is executed on the real pool; after every single Get the whole set of
// objects handed out so far is checked against the reference model (a slice of independently owned values).

type c18Case struct {
	Pool  string `json:"pool"`
	Size  int    `json:"size"`
	Count int    `json:"count"`
}

func c18Sizes(thorough bool) []int {
	var s []int
	top := 128
	if thorough {
		top = 1100
	}
	for i := 1; i <= top; i++ {
		s = append(s, i)
	}
	if thorough {
		s = append(s, 2047, 2048, 2049, 4096)
	} else {
		s = append(s, 255, 256, 257, 1023, 1024, 1025)
	}
	return s
}

func c18One(c *core.Ctx, cs c18Case) {
	key := func(what string) string { return fmt.Sprintf("%s pool: %s", cs.Pool, what) }
	defer func() {
		if r := recover(); r != nil {
			c.Report(key("panic in Get"), fmt.Sprintf("size=%d count=%d: %v", cs.Size, cs.Count, r), cs)
		}
	}()
	switch cs.Pool {
	case "token":
		p := token.NewPool(cs.Size)
		var got []*token.Token
		var vals []string
		seen := map[*token.Token]int{}
		for k := 0; k < cs.Count; k++ {
			t := p.Get()
			c.P.Trans++
			if t == nil {
				c.Report(key("Get returned nil"), fmt.Sprintf("size=%d request #%d", cs.Size, k+1), cs)
				return
			}
			if j, dup := seen[t]; dup {
				c.Report(key("same object handed out twice"), fmt.Sprintf("size=%d requests #%d and #%d", cs.Size, j+1, k+1), cs)
				return
			}
			seen[t] = k
			// distinct storage, not only distinct addresses
			for _, o := range got[max0(len(got)-2):] {
				if overlap(unsafe.Pointer(o), unsafe.Sizeof(*o), unsafe.Pointer(t), unsafe.Sizeof(*t)) {
					c.Report(key("objects overlap in memory"), fmt.Sprintf("size=%d request #%d", cs.Size, k+1), cs)
					return
				}
			}
			t.ID = token.ID(1000 + k)
			vals = append(vals, fmt.Sprintf("v%d", k))
			t.Value = []byte(vals[k])
			t.Position = &position.Position{StartPos: k}
			got = append(got, t)
			for j, o := range got {
				if int(o.ID) != 1000+j || string(o.Value) != vals[j] || o.Position == nil || o.Position.StartPos != j {
					c.Report(key("earlier object changed by a later Get/write"), fmt.Sprintf("size=%d object #%d after request #%d", cs.Size, j+1, k+1), cs)
					return
				}
			}
		}
		for j := len(got) - 1; j >= 0; j-- { // reverse order writes
			got[j].ID = token.ID(5000 + j)
		}
		for j, o := range got {
			if int(o.ID) != 5000+j {
				c.Report(key("write through one object visible through another"), fmt.Sprintf("size=%d object #%d", cs.Size, j+1), cs)
				return
			}
		}
	case "position":
		p := position.NewPool(cs.Size)
		var got []*position.Position
		seen := map[*position.Position]int{}
		for k := 0; k < cs.Count; k++ {
			t := p.Get()
			c.P.Trans++
			if t == nil {
				c.Report(key("Get returned nil"), fmt.Sprintf("size=%d request #%d", cs.Size, k+1), cs)
				return
			}
			if j, dup := seen[t]; dup {
				c.Report(key("same object handed out twice"), fmt.Sprintf("size=%d requests #%d and #%d", cs.Size, j+1, k+1), cs)
				return
			}
			seen[t] = k
			for _, o := range got[max0(len(got)-2):] {
				if overlap(unsafe.Pointer(o), unsafe.Sizeof(*o), unsafe.Pointer(t), unsafe.Sizeof(*t)) {
					c.Report(key("objects overlap in memory"), fmt.Sprintf("size=%d request #%d", cs.Size, k+1), cs)
					return
				}
			}
			*t = position.Position{StartLine: k, EndLine: -k, StartPos: 7 * k, EndPos: 7*k + 1}
			got = append(got, t)
			for j, o := range got {
				if (*o != position.Position{StartLine: j, EndLine: -j, StartPos: 7 * j, EndPos: 7*j + 1}) {
					c.Report(key("earlier object changed by a later Get/write"), fmt.Sprintf("size=%d object #%d after request #%d", cs.Size, j+1, k+1), cs)
					return
				}
			}
		}
		for j := len(got) - 1; j >= 0; j-- {
			got[j].EndPos = 9000 + j
		}
		for j, o := range got {
			if o.EndPos != 9000+j || o.StartLine != j {
				c.Report(key("write through one object visible through another"), fmt.Sprintf("size=%d object #%d", cs.Size, j+1), cs)
				return
			}
		}
	}
}

func max0(i int) int {
	if i < 0 {
		return 0
	}
	return i
}

func overlap(a unsafe.Pointer, an uintptr, b unsafe.Pointer, bn uintptr) bool {
	x, y := uintptr(a), uintptr(b)
	return x < y+bn && y < x+an
}

func init() {
	register(&core.Check{
		Prop: "C18", Level: "exploration", Exhaust: true, QuickSecs: 100, ThorSecs: 900,
		Rule: "every (pool, block size, request count) with size in the tier's set and count in 0..3*size+2 is one history Get^count on the real pool (run as one chain per size, the oracle evaluated after every Get, i.e. on every prefix history); " +
			"after every Get: non-nil, pointer not seen before, no storage overlap with the previous objects, a unique value is written and all earlier objects are read back; " +
			"then writes in reverse order. non-trivial = histories that cross at least one block boundary (count > size); distinct by (pool,size,count)",
		Assume: []string{"the pool files are built through the overlay that only turns `const DefaultBlockSize` into a var; Get/NewPool are the tree's own code"},
		Run: func(c *core.Ctx) {
			for _, pool := range []string{"token", "position"} {
				for _, size := range c18Sizes(c.Thorough()) {
					// Get^k is a prefix of Get^(k+1): one chain of 3*size+2 requests visits every shorter
					// history, and the oracle is evaluated after every single Get of the chain.
					if !c.Next() {
						continue
					}
					count := 3*size + 2
					cs := c18Case{pool, size, count}
					c18One(c, cs)
					c.P.Evals += int64(count) // every prefix history Get^0 .. Get^count was checked
					c.P.States += int64(count) + 1
					for k := size + 1; k <= count; k++ {
						c.Nontrivial(fmt.Sprintf("%s/%d/%d", pool, size, k))
					}
					c.Max("max_block_boundaries_crossed", int64((count-1)/size))
					c.Sample(cs)
				}
			}
		},
		Replay: func(c *core.Ctx, raw json.RawMessage) {
			var cs c18Case
			if json.Unmarshal(raw, &cs) == nil {
				c18One(c, cs)
			}
		},
	})
}
