package main

import (
	"encoding/json"
	"fmt"
	"github.com/z7zmey/php-parser/verifmc/drive"
	"github.com/z7zmey/php-parser/verifmc/lexm"
	"os"
	"os/exec"
	"runtime"
	"strings"
	"sync"
	"time"
	"unsafe"

	"github.com/z7zmey/php-parser/pkg/position"
	"github.com/z7zmey/php-parser/pkg/token"
	"github.com/z7zmey/php-parser/verifmc/core"
)

// C18 — E-hist over both pools: for every block size in the tier's set and every request count up to
// 3·size+2 the history Get^k is executed on the real pool; after every single Get the whole set of
// objects handed out so far is checked against the reference model (a slice of independently owned values).

type c18Case struct {
	Pool  string `json:"pool"`
	Size  int    `json:"size"`
	Count int    `json:"count"`
	GC    bool   `json:"gc,omitempty"`
}

func c18Sizes(thorough bool) []int {
	var s []int
	top := 128
	if thorough {
		top = 1100
	}
	for i := 1; i <= top; i++ {
		s = append(s, i)
	}
	if thorough {
		s = append(s, 2047, 2048, 2049, 4096)
	} else {
		s = append(s, 255, 256, 257, 1023, 1024, 1025)
	}
	return s
}

func c18LongSizes(thorough bool) []int {
	if thorough {
		return []int{1, 2, 3, 4, 5, 7, 8, 16, 31, 32, 33, 64, 100, 127, 128, 129, 1024, 4096, 20000, 65536, 70000}
	}
	return []int{1, 2, 3, 5, 8, 16, 64, 1024, 20000, 70000}
}

func c18GCSizes(thorough bool) []int {
	if thorough {
		return []int{1, 2, 3, 4, 5, 6, 7, 8, 9, 15, 16, 17, 31, 32, 33, 64, 128, 1024}
	}
	return []int{1, 2, 3, 4, 8, 16, 1024}
}

func c18One(c *core.Ctx, cs c18Case) {
	key := func(what string) string { return fmt.Sprintf("%s pool: %s", cs.Pool, what) }
	defer func() {
		if r := recover(); r != nil {
			c.Report(key("panic in Get"), fmt.Sprintf("size=%d count=%d: %v", cs.Size, cs.Count, r), cs)
		}
	}()
	switch cs.Pool {
	case "token":
		p := token.NewPool(cs.Size)
		var got []*token.Token
		var vals []string
		seen := map[*token.Token]int{}
		for k := 0; k < cs.Count; k++ {
			t := p.Get()
			c.P.Trans++
			if t == nil {
				c.Report(key("Get returned nil"), fmt.Sprintf("size=%d request #%d", cs.Size, k+1), cs)
				return
			}
			if j, dup := seen[t]; dup {
				c.Report(key("same object handed out twice"), fmt.Sprintf("size=%d requests #%d and #%d", cs.Size, j+1, k+1), cs)
				return
			}
			seen[t] = k
			c18GC(cs, k)
			// distinct storage, not only distinct addresses
			for _, o := range got[max0(len(got)-2):] {
				if overlap(unsafe.Pointer(o), unsafe.Sizeof(*o), unsafe.Pointer(t), unsafe.Sizeof(*t)) {
					c.Report(key("objects overlap in memory"), fmt.Sprintf("size=%d request #%d", cs.Size, k+1), cs)
					return
				}
			}
			t.ID = token.ID(1000 + k)
			vals = append(vals, fmt.Sprintf("v%d", k))
			t.Value = []byte(vals[k])
			t.Position = &position.Position{StartPos: k}
			got = append(got, t)
			for j, o := range got[c18From(cs, k):] {
				j += c18From(cs, k)
				if int(o.ID) != 1000+j || string(o.Value) != vals[j] || o.Position == nil || o.Position.StartPos != j {
					c.Report(key("earlier object changed by a later Get/write"), fmt.Sprintf("size=%d object #%d after request #%d", cs.Size, j+1, k+1), cs)
					return
				}
			}
		}
		for j := len(got) - 1; j >= 0; j-- { // reverse order writes
			got[j].ID = token.ID(5000 + j)
		}
		for j, o := range got {
			if int(o.ID) != 5000+j {
				c.Report(key("write through one object visible through another"), fmt.Sprintf("size=%d object #%d", cs.Size, j+1), cs)
				return
			}
		}
	case "position":
		p := position.NewPool(cs.Size)
		var got []*position.Position
		seen := map[*position.Position]int{}
		for k := 0; k < cs.Count; k++ {
			t := p.Get()
			c.P.Trans++
			if t == nil {
				c.Report(key("Get returned nil"), fmt.Sprintf("size=%d request #%d", cs.Size, k+1), cs)
				return
			}
			if j, dup := seen[t]; dup {
				c.Report(key("same object handed out twice"), fmt.Sprintf("size=%d requests #%d and #%d", cs.Size, j+1, k+1), cs)
				return
			}
			seen[t] = k
			c18GC(cs, k)
			for _, o := range got[max0(len(got)-2):] {
				if overlap(unsafe.Pointer(o), unsafe.Sizeof(*o), unsafe.Pointer(t), unsafe.Sizeof(*t)) {
					c.Report(key("objects overlap in memory"), fmt.Sprintf("size=%d request #%d", cs.Size, k+1), cs)
					return
				}
			}
			*t = position.Position{StartLine: k, EndLine: -k, StartPos: 7 * k, EndPos: 7*k + 1}
			got = append(got, t)
			for j, o := range got[c18From(cs, k):] {
				j += c18From(cs, k)
				if (*o != position.Position{StartLine: j, EndLine: -j, StartPos: 7 * j, EndPos: 7*j + 1}) {
					c.Report(key("earlier object changed by a later Get/write"), fmt.Sprintf("size=%d object #%d after request #%d", cs.Size, j+1, k+1), cs)
					return
				}
			}
		}
		for j := len(got) - 1; j >= 0; j-- {
			got[j].EndPos = 9000 + j
		}
		for j, o := range got {
			if o.EndPos != 9000+j || o.StartLine != j {
				c.Report(key("write through one object visible through another"), fmt.Sprintf("size=%d object #%d", cs.Size, j+1), cs)
				return
			}
		}
	}
}

// c18GC: "stay valid for the lifetime of the pool" includes garbage collections: the collector runs in the
// middle of a history (just after a block boundary, just before one, and at a few fixed requests), so a pool that
// keeps its blocks reachable only through something the collector does not follow (uintptr, a recycled
// sync.Pool entry, a finalizer) loses or recycles objects that the read-back then finds changed.
func c18GC(cs c18Case, k int) {
	if !cs.GC {
		return
	}
	if r := k % cs.Size; (r == 0 || r == cs.Size-1) && k/cs.Size <= 3 || k == 1 || k == cs.Count-1 {
		runtime.GC()
	}
}

// c18From: in long histories (many blocks) every object is read back after each of the first 3*size+2
// requests and after every request that starts or ends a block; in between only the objects of the last
// three blocks are (the cost of a full read-back after every request is quadratic).
func c18From(cs c18Case, k int) int {
	if cs.Count <= 4*cs.Size+2 && cs.Size <= 4200 || k == cs.Count-1 || k%8192 == 0 {
		return 0 // the short histories: everything after every request
	}
	if k <= 3*cs.Size+2 && cs.Size <= 128 {
		return 0
	}
	if r := k % cs.Size; (r == 0 || r == cs.Size-1) && k/cs.Size <= 64 {
		return 0
	}
	w := 3*cs.Size + 3
	if w > 48 {
		w = 48
	}
	return max0(k - w)
}

// c18Two: histories over two pools that live at the same time, every interleaving word w over {A, B} of the
// given length (bit i of w: which pool serves request i). Objects must be distinct across the pools as well,
// and every object keeps its value: a pool that draws its blocks from anything shared with other pools (a
// package-level slab, a free list) shows up here without any concurrency.
type c18TwoCase struct {
	Pool         string `json:"pool"`
	SizeA, SizeB int
	Len          int    `json:"len"`
	Word         uint32 `json:"word"`
}

func c18Two(c *core.Ctx, cs c18TwoCase) {
	key := func(what string) string { return fmt.Sprintf("%s pool: two pools alive at once: %s", cs.Pool, what) }
	defer func() {
		if r := recover(); r != nil {
			c.Report(key("panic in Get"), fmt.Sprintf("%+v: %v", cs, r), cs)
		}
	}()
	type obj struct {
		p unsafe.Pointer
		v int
	}
	var got []obj
	seen := map[unsafe.Pointer]int{}
	read := func(o obj) int {
		if cs.Pool == "token" {
			return int((*token.Token)(o.p).ID)
		}
		return (*position.Position)(o.p).StartPos
	}
	var ta, tb *token.Pool
	var pa, pb *position.Pool
	if cs.Pool == "token" {
		ta, tb = token.NewPool(cs.SizeA), token.NewPool(cs.SizeB)
	} else {
		pa, pb = position.NewPool(cs.SizeA), position.NewPool(cs.SizeB)
	}
	for k := 0; k < cs.Len; k++ {
		second := cs.Word>>uint(k)&1 == 1
		var p unsafe.Pointer
		if cs.Pool == "token" {
			pl := ta
			if second {
				pl = tb
			}
			t := pl.Get()
			if t == nil {
				c.Report(key("Get returned nil"), fmt.Sprintf("%+v request #%d", cs, k+1), cs)
				return
			}
			t.ID = token.ID(100 + k)
			p = unsafe.Pointer(t)
		} else {
			pl := pa
			if second {
				pl = pb
			}
			t := pl.Get()
			if t == nil {
				c.Report(key("Get returned nil"), fmt.Sprintf("%+v request #%d", cs, k+1), cs)
				return
			}
			t.StartPos = 100 + k
			p = unsafe.Pointer(t)
		}
		c.P.Trans++
		if j, dup := seen[p]; dup {
			c.Report(key("same object handed out twice"), fmt.Sprintf("%+v requests #%d and #%d", cs, j+1, k+1), cs)
			return
		}
		seen[p] = k
		got = append(got, obj{p, 100 + k})
		for j, o := range got {
			if read(o) != o.v {
				c.Report(key("earlier object changed by a later Get/write"), fmt.Sprintf("%+v object #%d after request #%d", cs, j+1, k+1), cs)
				return
			}
		}
	}
}

// poolRacePass (body of `check poolrace`, run in the -race binary): goroutines that each own their pools, free-running.
// Complements the histories above, which cannot see an unsynchronised access to something the pools share.
func poolRacePass() int {
	const G = 12
	var wg sync.WaitGroup
	var mu sync.Mutex
	owner := map[unsafe.Pointer]int{}
	bad := 0
	for g := 0; g < G; g++ {
		wg.Add(1)
		go func(g int) {
			defer wg.Done()
			for round := 0; round < 3; round++ {
				for _, size := range []int{1, 2, 3, 8, 64, 1024} {
					tp, pp := token.NewPool(size), position.NewPool(size)
					n := 3*size + 40
					ts := make([]*token.Token, n)
					ps := make([]*position.Position, n)
					for k := 0; k < n; k++ {
						ts[k], ps[k] = tp.Get(), pp.Get()
						ts[k].ID = token.ID(g*100000 + k)
						ps[k].StartPos = g*100000 + k
					}
					mu.Lock()
					for k := 0; k < n; k++ {
						if int(ts[k].ID) != g*100000+k || ps[k].StartPos != g*100000+k {
							bad++
						}
						for _, p := range []unsafe.Pointer{unsafe.Pointer(ts[k]), unsafe.Pointer(ps[k])} {
							if o, dup := owner[p]; dup && o != g*10+round {
								bad++
							}
							owner[p] = g*10 + round
						}
					}
					mu.Unlock()
					runtime.KeepAlive(ts)
					runtime.KeepAlive(ps)
				}
			}
			// the objects stay reachable through ts/ps of the last round only; earlier addresses may be
			// recycled by the allocator, hence the (goroutine, round) owner tag
		}(g)
	}
	wg.Wait()
	fmt.Printf("poolrace: %d goroutines x 3 rounds x 6 block sizes x 2 pools, %d objects shared between pools or changed\n", G, bad)
	if bad > 0 {
		return 1
	}
	return 0
}

func runPoolRacePass(c *core.Ctx) {
	oldWall := c.WallPerItem
	c.WallPerItem = 20 * time.Minute // one run of the -race binary is one long item
	defer func() { c.WallPerItem = oldWall }()
	bin := os.Getenv("VERIF_RACE_BIN")
	if bin == "" {
		c.Note("race pass skipped: no -race binary (VERIF_RACE_BIN unset)")
		return
	}
	cmd := exec.Command(bin, "poolrace")
	cmd.Env = append(os.Environ(), "GORACE=halt_on_error=0 exitcode=0", "GOMAXPROCS=16", "VERIF_WORKER=")
	out, err := cmd.CombinedOutput()
	s := string(out)
	c.Stat("race_pass_runs", 1)
	if strings.Contains(s, "WARNING: DATA RACE") {
		i := strings.Index(s, "WARNING: DATA RACE")
		c.Report("pools owned by different goroutines: data race reported by the race detector (free-running pass): "+raceSite(s[i:]), clipS(s[i:], 900), nil)
	}
	if i := strings.Index(s, "poolrace:"); i >= 0 {
		c.Note(strings.TrimSpace(s[i:]))
		if !strings.Contains(s[i:], " 0 objects shared") {
			c.Report("pools owned by different goroutines hand out the same object or lose a written value (free-running pass)", clipS(s[i:], 300), nil)
		}
	} else if err != nil || true {
		if !strings.Contains(s, "WARNING: DATA RACE") {
			c.Note("pool race pass gave no summary: " + clipS(s, 300))
		}
	}
}

// c18Scan: unit repeated until at least want pool requests (tokens + free-floating tokens) have been made.
func c18Scan(c *core.Ctx, unit string, want int) {
	drive.SetBlockSize(drive.ProdBlock)
	defer drive.SetBlockSize(drive.ProdBlock)
	// requests per unit: measured on one scan of a short repetition
	_, probe, ok := lexm.Scan([]byte("<?php "+strings.Repeat(unit, 8)), drive.V74)
	if !ok {
		return
	}
	per := 0
	for _, t := range probe {
		per += 1 + len(t.FreeFloating)
	}
	per = (per + 7) / 8
	if per == 0 {
		return
	}
	src := []byte("<?php " + strings.Repeat(unit, want/per+1))
	_, toks, ok := lexm.Scan(src, drive.V74)
	if !ok {
		c.Report("scanner fails on a long plain source", mkWhat("%d x %q", want/per+1, unit), nil)
		return
	}
	seen := map[*token.Token]int{}
	seenPos := map[*position.Position]int{}
	n := 0
	check := func(t *token.Token) {
		n++
		if t == nil {
			c.Report("scanner hands out a nil token", mkWhat("request %d of %d x %q", n, want/per+1, unit), nil)
			return
		}
		if k, dup := seen[t]; dup {
			c.Report("one token object handed out twice during one scan", mkWhat("requests %d and %d (%d x %q)", k, n, want/per+1, unit), nil)
		}
		seen[t] = n
		if t.Position != nil {
			if k, dup := seenPos[t.Position]; dup {
				c.Report("one position object handed out twice during one scan", mkWhat("requests %d and %d (%d x %q)", k, n, want/per+1, unit), nil)
			}
			seenPos[t.Position] = n
			p := t.Position
			if p.StartPos < 0 || p.EndPos > len(src) || p.StartPos > p.EndPos || string(src[p.StartPos:p.EndPos]) != string(t.Value) {
				c.Report("a token no longer holds its own source bytes at its own position when the scan is over", mkWhat("request %d: %q at %+v (%d x %q)", n, t.Value, *p, want/per+1, unit), nil)
			}
		}
	}
	for _, t := range toks {
		for _, f := range t.FreeFloating {
			check(f)
		}
		check(t)
	}
	c.Max("max_scanner_requests", int64(n))
}

func max0(i int) int {
	if i < 0 {
		return 0
	}
	return i
}

func overlap(a unsafe.Pointer, an uintptr, b unsafe.Pointer, bn uintptr) bool {
	x, y := uintptr(a), uintptr(b)
	return x < y+bn && y < x+an
}

func init() {
	register(&core.Check{
		Prop: "C18", Level: "exploration", Exhaust: true, QuickSecs: 100, ThorSecs: 900,
		Rule: "every (pool, block size, request count) with size in the tier's set and count in 0..3*size+2 is one history Get^count on the real pool (run as one chain per size, the oracle evaluated after every Get, i.e. on every prefix history); " +
			"after every Get: non-nil, pointer not seen before, no storage overlap with the previous objects, a unique value is written and all earlier objects are read back; " +
			"then writes in reverse order. Plus: long histories (150 000 requests, thorough 1 500 000) over small and very large blocks with the duplicate test on every request and full read-backs at block boundaries of the first 64 blocks and every 8192 requests; the histories of some sizes with garbage collections in the middle; every interleaving word of length 10 (thorough 14) over two pools alive at once, all size pairs in 1..4 (objects distinct across pools too); a free-running -race pass with 12 goroutines owning their pools (sampling, complements, never decides). non-trivial = histories that cross at least one block boundary (count > size); distinct by (pool,size,count)",
		Assume: []string{"pkg/token/pool.go and pkg/position/pool.go are compiled exactly as they are in the tree (no overlay touches them)"},
		Run: func(c *core.Ctx) {
			for _, pool := range []string{"token", "position"} {
				for _, size := range c18Sizes(c.Thorough()) {
					// Get^k is a prefix of Get^(k+1): one chain of 3*size+2 requests visits every shorter
					// history, and the oracle is evaluated after every single Get of the chain.
					if !c.Next() {
						continue
					}
					count := 3*size + 2
					cs := c18Case{pool, size, count, false}
					c18One(c, cs)
					c.P.Evals += int64(count) // every prefix history Get^0 .. Get^count was checked
					c.P.States += int64(count) + 1
					for k := size + 1; k <= count; k++ {
						c.Nontrivial(fmt.Sprintf("%s/%d/%d", pool, size, k))
					}
					c.Max("max_block_boundaries_crossed", int64((count-1)/size))
					c.Sample(cs)
				}
				// long histories over small blocks (hundreds to thousands of block boundaries), and the same
				// short histories with garbage collections in the middle
				for _, size := range c18LongSizes(c.Thorough()) {
					if !c.Next() {
						continue
					}
					count := 150000
					if c.Thorough() {
						count = 1500000
					}
					cs := c18Case{pool, size, count, false}
					c18One(c, cs)
					c.P.Evals += int64(count)
					c.P.States += int64(count) + 1
					c.Nontrivial(fmt.Sprintf("%s/%d/long%d", pool, size, count))
					c.Max("max_block_boundaries_crossed", int64((count-1)/size))
				}
				for _, size := range c18GCSizes(c.Thorough()) {
					if !c.Next() {
						continue
					}
					count := 4*size + 2
					cs := c18Case{pool, size, count, true}
					c18One(c, cs)
					c.P.Evals += int64(count)
					c.P.States += int64(count) + 1
					c.Stat("histories_with_garbage_collections", 1)
					c.Nontrivial(fmt.Sprintf("%s/%d/gc%d", pool, size, count))
				}
				// two pools alive at once: every interleaving word of the tier's length, all pairs of sizes 1..4
				n := 10
				if c.Thorough() {
					n = 14
				}
				for sa := 1; sa <= 4; sa++ {
					for sb := 1; sb <= 4; sb++ {
						for w := uint32(0); w < 1<<uint(n); w++ {
							if !c.Next() {
								continue
							}
							c18Two(c, c18TwoCase{pool, sa, sb, n, w})
							c.P.States += int64(n)
							c.Stat("two_pool_interleavings", 1)
							if w != 0 && w != 1<<uint(n)-1 {
								c.Nontrivial(fmt.Sprintf("%s/two/%d/%d/%d", pool, sa, sb, w))
							}
						}
					}
				}
			}
			// the pools as the scanner uses them (production block size, whatever constructor and sizing the scanner chooses):
			// sources of three densities whose token count crosses 1, 2, 3, 4 and 9 block boundaries by -1, 0, +1, +2 requests;
			// every token and free-floating token handed out must be a distinct object that still holds its own source bytes
			// at its own position when the scan is over
			for _, dens := range []string{"$a=1;", "$a = 1 ;\n", "f ( $a , 'b' ) ; /*c*/ "} {
				for _, blocks := range []int{1, 2, 3, 4, 9} {
					for d := -3; d <= 3; d++ {
						if !c.Next() {
							continue
						}
						c18Scan(c, dens, blocks*1024+d)
						c.Stat("scanner_histories", 1)
					}
				}
			}
			if c.Shard == 0 {
				runPoolRacePass(c)
			}
		},
		Replay: func(c *core.Ctx, raw json.RawMessage) {
			var two c18TwoCase
			if json.Unmarshal(raw, &two) == nil && two.SizeA > 0 {
				c18Two(c, two)
				return
			}
			var cs c18Case
			if json.Unmarshal(raw, &cs) == nil && cs.Size > 0 {
				c18One(c, cs)
			}
		},
	})
}
