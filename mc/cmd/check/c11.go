package main

import (
	"bytes"
	"encoding/json"
	"fmt"
	"os"
	"os/exec"
	"strings"

	"github.com/z7zmey/php-parser/internal/verifhook"
	"github.com/z7zmey/php-parser/pkg/ast"
	"github.com/z7zmey/php-parser/pkg/conf"
	"github.com/z7zmey/php-parser/pkg/errors"
	"github.com/z7zmey/php-parser/pkg/parser"
	"github.com/z7zmey/php-parser/pkg/version"
	"github.com/z7zmey/php-parser/pkg/visitor/dumper"
	"github.com/z7zmey/php-parser/pkg/visitor/nsresolver"
	"github.com/z7zmey/php-parser/pkg/visitor/printer"
	"github.com/z7zmey/php-parser/pkg/visitor/traverser"
	"github.com/z7zmey/php-parser/verifmc/astx"
	"github.com/z7zmey/php-parser/verifmc/core"
	"github.com/z7zmey/php-parser/verifmc/drive"
	"github.com/z7zmey/php-parser/verifmc/sched"
)

// C11 — concurrent use on different inputs is safe and deterministic (E-sched).

type c11Job struct {
	Src string `json:"src"`
	Ver string `json:"ver"`
}

// c11Res: which of the possible yield points are scheduling points in one exploration.
type c11Res struct {
	Name       string `json:"name"`
	Tick       bool   `json:"scanner_restarts"`
	PrintEvery int    `json:"printer_write_every"`
	DumpEvery  int    `json:"dumper_write_every"`
	Leave      bool   `json:"resolver_leave_node"`
}

var (
	c11Full   = c11Res{"all points", true, 1, 1, true}
	c11Coarse = c11Res{"Lex calls, error callbacks, every printer write, every 8th dumper write, resolver EnterNode", false, 1, 8, false}
)

type pointWriter struct {
	s     *sched.Sched
	b     bytes.Buffer
	every int
	n     int
}

func (w *pointWriter) Write(p []byte) (int, error) {
	w.n++
	if w.s != nil && w.n%w.every == 0 {
		w.s.Point()
	}
	return w.b.Write(p)
}

type yieldResolver struct {
	*nsresolver.NamespaceResolver
	s     *sched.Sched
	leave bool
}

func (y *yieldResolver) EnterNode(n ast.Vertex) bool {
	if y.s != nil {
		y.s.Point()
	}
	return y.NamespaceResolver.EnterNode(n)
}

func (y *yieldResolver) LeaveNode(n ast.Vertex) {
	if y.s != nil && y.leave {
		y.s.Point()
	}
	y.NamespaceResolver.LeaveNode(n)
}

// c11Pipeline: parse -> print -> dump(tokens+positions) -> traverse+resolve; returns every observation as
// one string. s == nil: sequential baseline (no yields).
func c11Pipeline(s *sched.Sched, j c11Job, rs c11Res) (out string) {
	return c11PipelineBuf(s, j, rs, nil)
}

// c11Version: one *Version object per version string for the whole process — a caller hands the same configuration to all
// its parses (the command-line tool does), so pipelines share the object although their inputs differ.
// (filled once before anything runs and only read afterwards: a lock here would order the goroutines of the free-running pass
// and hide exactly the races it is there to find)
var c11Vers = func() map[string]*version.Version {
	m := map[string]*version.Version{}
	for maj, mins := range map[uint64]uint64{5: 6, 7: 4} {
		for min := uint64(0); min <= mins; min++ {
			m[fmt.Sprintf("%d.%d", maj, min)] = &version.Version{Major: maj, Minor: min}
		}
	}
	return m
}()

func c11Version(s string) *version.Version {
	if s == "nil" || s == "" {
		return nil
	}
	if v, ok := c11Vers[s]; ok {
		return v
	}
	return parseVer(s)
}

// c11PipelineBuf: the pipeline on the caller's buffer buf (nil: a private copy of the source).
func c11PipelineBuf(s *sched.Sched, j c11Job, rs c11Res, buf []byte) (out string) {
	defer func() {
		if r := recover(); r != nil {
			if _, ok := r.(sched.Abort); ok {
				panic(r)
			}
			out = "PANIC: " + drive.PanicMsg(r)
		}
	}()
	var errs []string
	src := []byte(j.Src)
	if buf != nil {
		src = buf
	}
	root, err := parser.Parse(src, conf.Config{Version: c11Version(j.Ver), ErrorHandlerFunc: func(e *errors.Error) {
		errs = append(errs, e.String())
		if s != nil {
			s.Point()
		}
	}})
	var b strings.Builder
	fmt.Fprintf(&b, "err=%v\nerrors=%q\n", err, errs)
	if astx.IsNil(root) {
		return b.String() + "no tree"
	}
	b.WriteString("tree=" + astx.FullFP(root) + "\n")
	pw := &pointWriter{s: s, every: rs.PrintEvery}
	root.Accept(printer.NewPrinter(pw))
	b.WriteString("printed=" + pw.b.String() + "\n")
	dw := &pointWriter{s: s, every: rs.DumpEvery}
	dumper.NewDumper(dw).WithTokens().WithPositions().Dump(root)
	b.WriteString("dump=" + dw.b.String() + "\n")
	r := &yieldResolver{nsresolver.NewNamespaceResolver(), s, rs.Leave}
	traverser.NewTraverser(r).Traverse(root)
	var names []string
	for n, fq := range r.ResolvedNames {
		st := -1
		if p := n.GetPosition(); p != nil {
			st = p.StartPos
		}
		names = append(names, fmt.Sprintf("%s@%d=%s", astx.KindName(n), st, fq))
	}
	sortStrings(names)
	b.WriteString("resolved=" + strings.Join(names, ",") + "\n")
	if !bytes.Equal(src, []byte(j.Src)) {
		b.WriteString("INPUT BUFFER MODIFIED\n")
	}
	return b.String()
}

func sortStrings(a []string) {
	for i := 1; i < len(a); i++ {
		for k := i; k > 0 && a[k] < a[k-1]; k-- {
			a[k], a[k-1] = a[k-1], a[k]
		}
	}
}

// freshBaseline: the observations of one pipeline run alone in a FRESH process — the only baseline that a
// leak through package-level state cannot have polluted.
var freshCache = map[string]string{}

func freshBaseline(j c11Job, rs c11Res) string {
	in, _ := json.Marshal(map[string]interface{}{"job": j, "res": rs})
	if v, ok := freshCache[string(in)]; ok {
		return v
	}
	cmd := exec.Command(os.Args[0], "c11-job")
	cmd.Stdin = bytes.NewReader(in)
	cmd.Env = append(os.Environ(), "VERIF_WORKER=")
	out, err := cmd.Output()
	if err != nil {
		panic("c11: fresh-process baseline failed: " + err.Error())
	}
	freshCache[string(in)] = string(out)
	return string(out)
}

func init() {
	if len(os.Args) > 1 && os.Args[1] == "c11-job" {
		var req struct {
			Job c11Job `json:"job"`
			Res c11Res `json:"res"`
		}
		if json.NewDecoder(os.Stdin).Decode(&req) != nil {
			os.Exit(2)
		}
		drive.SetBlockSize(smallBlock)
		os.Stdout.WriteString(c11Pipeline(nil, req.Job, req.Res))
		os.Exit(0)
	}
}

type c11Scenario struct {
	Name string   `json:"name"`
	Jobs []c11Job `json:"jobs"`
	Fine bool     `json:"-"`
}

var c11Scenarios = []c11Scenario{
	{"two PHP 7 programs", []c11Job{{"<?php $a = f(1, [2]) ?? 3; class A { function m() {} }", "7.4"}, {"<?php foreach ($x as $k => $v) { echo \"$k: {$v->w}\"; }", "7.4"}}, false},
	{"PHP 5 and PHP 7", []c11Job{{"<?php foo(&$a); list($a, list($b)) = $c;", "5.6"}, {"<?php [$a, $b] = $c; fn($x) => $x <=> 1;", "7.4"}}, false},
	{"two PHP 5 programs", []c11Job{{"<?php global $$a; new $b->c; goto l; l:", "5.6"}, {"<?php foreach ($a as &$k => $v) {} $x = &new B;", "5.3"}}, false},
	{"the same text in two buffers", []c11Job{{"<?php namespace A; use B\\C; new C(<<<X\nt $v\nX\n);", "7.4"}, {"<?php namespace A; use B\\C; new C(<<<X\nt $v\nX\n);", "7.4"}}, false},
	{"heredoc labels against no heredoc", []c11Job{{"<?php $a = <<<AAA\nx $b y\nAAA;\n$c = <<<'B'\nz\nB;\n", "7.4"}, {"<?php $q = \"AAA $r B\"; echo AAA, B;\n", "7.4"}}, false},
	{"two different heredoc labels", []c11Job{{"<?php $a = <<<AAA\nx\nBBB\nAAA;\n", "7.2"}, {"<?php $a = <<<BBB\nAAA\nx\nBBB;\n", "7.2"}}, false},
	{"error path against clean path", []c11Job{{"<?php $a = ; class { } foo( ; $b = 1;", "7.4"}, {"<?php $a = 1; class B { } foo(); $b = 1;", "7.4"}}, false},
	{"7.2 against 7.4 on a flexible heredoc", []c11Job{{"<?php f(<<<A\n  x\n  A, 1);\n$b;", "7.2"}, {"<?php f(<<<A\n  x\n  A, 1);\n$b;", "7.4"}}, false},
	{"the same namespace with different imports", []c11Job{{"<?php namespace N; use X\\Foo; use function X\\f; new Foo; f(); K;", "7.4"}, {"<?php namespace N; use Y\\Foo; use const Y\\K; new Foo; f(); K;", "7.4"}}, false},
	{"words against punctuation in the printer", []c11Job{{"<?php echo new static instanceof self and print clone $a or exit;", "7.4"}, {"<?php [[$a[1]{2}]]=-+!~@$b[3]?->$c:(--$d)**++$e;", "7.4"}}, false},
	{"braced global namespaces with and without imports", []c11Job{{"<?php namespace { use App\\Models\\User; use function App\\f; new User; f(); }", "7.4"}, {"<?php namespace { new User; f(); echo K; }", "7.4"}}, false},
	{"scanner restarts: strings, comments, inline HTML", []c11Job{{"<html><?php /* c */ \"a $b[0] ${c}\"; // d\n?> x <?= $e ?>", "7.4"}, {"#!sh\n<?php `ls $a`; # h\n'q\\'r' . <<<'N'\nn\nN;\n", "5.6"}}, true},
	{"scanner restarts: errors and recovery", []c11Job{{"<?php \x01 $a = 'x\n", "7.4"}, {"<?php /* open", "5.6"}}, true},
}

var c11Three = c11Scenario{"three pipelines", []c11Job{{"<?php $a = <<<A\n$b\nA;\n", "7.4"}, {"<?php use X\\Y; new Y;", "5.6"}, {"<?php 1 +; $c;", "7.4"}}, false}

type c11Case struct {
	Mode     string      `json:"mode"` // "schedule"
	Scenario c11Scenario `json:"scenario"`
	Res      c11Res      `json:"points"`
	Choices  []int       `json:"choices"`
	Bound    int         `json:"preemption_bound"`
}

func c11Bodies(sc c11Scenario, rs c11Res, outs []string) func() []func(s *sched.Sched) {
	return func() []func(s *sched.Sched) {
		var bs []func(s *sched.Sched)
		// the inputs are different, but they are neighbours in one buffer of the caller (read from one file, cut from one
		// request): every input slice has the next input behind its end, within its capacity
		var shared []byte
		for _, j := range sc.Jobs {
			shared = append(shared, j.Src...)
		}
		shared = append(make([]byte, 0, len(shared)+64), shared...)
		off := 0
		for i, j := range sc.Jobs {
			i, j := i, j
			buf := shared[off : off+len(j.Src)]
			off += len(j.Src)
			outs[i] = "DID NOT FINISH"
			bs = append(bs, func(s *sched.Sched) { outs[i] = c11PipelineBuf(s, j, rs, buf) })
		}
		return bs
	}
}

// c11Hooks installs the parser-side yield points for one exploration.
func c11Hooks(cur **sched.Sched, fine bool) {
	verifhook.Point = func() {
		if *cur != nil {
			(*cur).Point()
		}
	}
	verifhook.Tick = nil
	if fine {
		verifhook.Tick = func() {
			if *cur != nil {
				(*cur).Point()
			}
		}
	}
}

func c11Explore(c *core.Ctx, sc c11Scenario, rs c11Res, bound int) {
	drive.SetBlockSize(smallBlock)
	base := make([]string, len(sc.Jobs))
	for i, j := range sc.Jobs {
		verifhook.Point, verifhook.Tick = nil, nil
		base[i] = freshBaseline(j, rs)
		if again := c11Pipeline(nil, j, rs); again != base[i] {
			c.Report("a pipeline run in this process differs from the same pipeline run alone in a fresh process", mkWhat("%q under %s: %s", j.Src, j.Ver, firstDiffStr(base[i], again)), c11Case{"schedule", sc, rs, nil, bound})
		}
	}
	outs := make([]string, len(sc.Jobs))
	var cur *sched.Sched
	bodies := c11Bodies(sc, rs, outs)
	wrapped := func() []func(s *sched.Sched) {
		bs := bodies()
		for i := range bs {
			b := bs[i]
			bs[i] = func(s *sched.Sched) { cur = s; b(s) }
		}
		return bs
	}
	c11Hooks(&cur, rs.Tick)
	defer func() { verifhook.Point, verifhook.Tick = nil, nil }()
	// the default schedule tells how many points there are; runs are cut at 20x that
	probe, ps := sched.Exec(wrapped(), nil, 0)
	limit := 20*ps.Points + 1000
	c.Max(fmt.Sprintf("decisions_per_schedule(%s; bound %d)", sc.Name, bound), int64(len(probe.Choices)))
	outcomes := map[string]bool{}
	n := sched.Explore(wrapped, bound, limit,
		func(key uint64) bool {
			return c.NextKeyed(key * 0x9E3779B97F4A7C15 >> 20)
		},
		func(r *sched.Run, s *sched.Sched) bool {
			c.P.Trans += int64(len(r.Choices))
			c.Touch()
			k := strings.Join(outs, "\x00")
			outcomes[k] = true
			for i := range outs {
				if outs[i] != base[i] {
					cs := c11Case{"schedule", sc, rs, r.Choices, bound}
					what := "differs from its sequential result"
					if outs[i] == "DID NOT FINISH" {
						what = "does not terminate"
					} else if strings.HasPrefix(outs[i], "PANIC") {
						what = "panics"
					}
					c.Report(fmt.Sprintf("pipeline %d of scenario `%s` %s under an interleaving", i, sc.Name, what),
						mkWhat("schedule with %d decisions, %d preemptions allowed; first difference: %s", len(r.Choices), bound, firstDiffStr(base[i], outs[i])), cs)
					return false
				}
			}
			return !c.Capped()
		})
	c.P.States += int64(n)
	c.Stat("schedules_explored", int64(n))
	c.Max("distinct_outcome_vectors(must be 1)", int64(len(outcomes)))
}

func c11Run(c *core.Ctx) {
	if c.Shard == 0 && !c.Replaying {
		runRacePass(c)
	}
	if c.Shard == 1%c.N && !c.Replaying {
		c11Histories(c)
	}
	for _, sc := range c11Scenarios {
		// every schedule with at most one preemption over ALL points (scanner restarts, every write, …)
		c11Explore(c, sc, c11Full, 1)
		// every schedule with at most two preemptions over the coarser point set
		if !sc.Fine {
			c11Explore(c, sc, c11Coarse, 2)
		}
		c.Sample(map[string]interface{}{"scenario": sc, "explorations": []string{"bound 1 over " + c11Full.Name, "bound 2 over " + c11Coarse.Name}})
		c.Nontrivial(sc.Name)
	}
	// the command-line tool itself: walker, GOMAXPROCS parser workers and the printer goroutine under every schedule
	cliExplore(c, "C11", [][]string{{"-d", "-p", "-e", "-r"}, {"-pb", "-p", "-e"}, {"-p", "-r"}}, []string{"7.4", "5.6"}, cliConfigs(c.Thorough(), true))
	tiny := c11Scenario{"three pipelines (short)", []c11Job{{"<?php <<<A\nA;\n", "7.2"}, {"<?php new Y;", "5.6"}, {"<?php 1 +;", "7.4"}}, false}
	c11Explore(c, tiny, c11Coarse, 2)
	c.Nontrivial(tiny.Name)
	if c.Thorough() {
		c11Explore(c, c11Three, c11Coarse, 2)
		c.Nontrivial(c11Three.Name)
		small := c11Scenario{"bound 3 on short programs", []c11Job{{"<?php $a = <<<A\nx\nA;\n", "7.4"}, {"<?php use X\\Y; new Y;", "5.6"}}, false}
		c11Explore(c, small, c11Coarse, 3)
		c.Nontrivial(small.Name)
		for _, sc := range c11Scenarios[:4] {
			c11Explore(c, sc, c11Full, 2)
		}
	}
}

// c11Histories — sequential E-hist: every sequence of <= 3 pipelines over a set of programs chosen to leave
// something behind (errors at the very end or start of the input, unterminated constructs, heredocs, both
// families); the result of the last pipeline must not depend on what ran before it in the same process.
var c11HistJobs = []c11Job{
	{"<?php $a = 1;", "7.4"}, {"<?php $a = 1;", "5.6"},
	{"<?php ) $a = 1; foo();", "7.4"}, {"<?php ) $a = 1; foo();", "5.6"},
	{"<?php $a = 1; foo(", "7.4"}, {"<?php $a = 1; foo(", "5.6"},
	{"<?php $a = <<<A\nx $b\n", "7.4"}, {"<?php $a = <<<A\nx\nA;\n$c = \"d $e", "7.2"},
	{"<?php class { } function ( { $x = ; }", "7.4"}, {"<?php foreach ($a as &$k => $v) {} trait T extends B {}", "5.6"},
	{"<?php namespace N; use A\\B; new B; /* open", "7.4"}, {"<html><?php if ($a): ?>x<?php endif; ?>\n", "5.3"},
	{"<?php \x01 1 +", "7.0"}, {"", "7.4"},
	// writers and readers of name-resolution state in every namespace form
	{"<?php namespace { use App\\Models\\User; use function App\\f; use const App\\K; new User; }", "7.4"},
	{"<?php namespace { new User; f(); echo K; }", "7.4"},
	{"<?php namespace A { use B\\User; } namespace { new User; }", "5.6"},
	{"<?php use X\\User; new User; f(); echo K;", "7.4"},
	// several candidates for one lookup (aliases that differ only in letter case, a reference in a third spelling): whatever
	// the resolver makes of it must be the same every time (no dependence on map iteration order)
	{"<?php use Lib\\Http\\Client; use Vendor\\Net\\CLIENT; use function A\\foo; use function B\\FOO; use const C\\K; use const D\\k; new client; new Client\\X; Foo(); echo K, k;", "7.4"},
	{"<?php namespace N; use A\\{B, b as C, c}; use A\\B as c; new b; new C; new B\\D; function f(c $x): B {}", "7.4"},
}

func c11Histories(c *core.Ctx) {
	verifhook.Point, verifhook.Tick = nil, nil
	drive.SetBlockSize(smallBlock)
	n := len(c11HistJobs)
	first := make([]string, n)
	have := make([]bool, n)
	var seqs [][]int
	for a := 0; a < n; a++ {
		seqs = append(seqs, []int{a})
		for b := 0; b < n; b++ {
			seqs = append(seqs, []int{a, b})
			for d := 0; d < n; d++ {
				seqs = append(seqs, []int{a, b, d})
			}
		}
	}
	for _, seq := range seqs {
		var out string
		for _, i := range seq {
			out = c11Pipeline(nil, c11HistJobs[i], c11Full)
			c.P.Trans++
		}
		last := seq[len(seq)-1]
		if !have[last] {
			have[last], first[last] = true, freshBaseline(c11HistJobs[last], c11Full)
		}
		if out != first[last] {
			var names []string
			for _, i := range seq {
				names = append(names, fmt.Sprintf("%q@%s", c11HistJobs[i].Src, c11HistJobs[i].Ver))
			}
			c.Report("the result of a pipeline depends on what ran before it in the same process", mkWhat("history %s: %s", strings.Join(names, " ; "), firstDiffStr(first[last], out)), nil)
			return
		}
	}
	c.Stat("sequential_histories", int64(len(seqs)))
}

func c11Replay(c *core.Ctx, raw json.RawMessage) {
	var cs c11Case
	if json.Unmarshal(raw, &cs) != nil || cs.Mode != "schedule" {
		return
	}
	drive.SetBlockSize(smallBlock)
	sc := cs.Scenario
	base := make([]string, len(sc.Jobs))
	for i, j := range sc.Jobs {
		verifhook.Point, verifhook.Tick = nil, nil
		base[i] = freshBaseline(j, cs.Res)
	}
	var first []string
	for round := 0; round < 2; round++ {
		outs := make([]string, len(sc.Jobs))
		var cur *sched.Sched
		bs := c11Bodies(sc, cs.Res, outs)()
		for i := range bs {
			b := bs[i]
			bs[i] = func(s *sched.Sched) { cur = s; b(s) }
		}
		c11Hooks(&cur, cs.Res.Tick)
		sched.Exec(bs, cs.Choices, 200000)
		verifhook.Point, verifhook.Tick = nil, nil
		if round == 0 {
			first = outs
		} else if strings.Join(first, "\x00") != strings.Join(outs, "\x00") {
			fmt.Println("HARNESS-ERROR: the same schedule gave different observations on replay")
			return
		}
	}
	for i := range first {
		if first[i] != base[i] {
			c.Report(fmt.Sprintf("pipeline %d of scenario `%s` differs from its sequential result under the recorded schedule", i, sc.Name), firstDiffStr(base[i], first[i]), cs)
		}
	}
}

func init() {
	register(&core.Check{
		Prop: "C11", Level: "exploration", Exhaust: true, QuickSecs: 900, ThorSecs: 3600, OneProc: true,
		Rule: "pipelines parse -> print -> dump(tokens+positions) -> traverse+resolve run as goroutines under a cooperative scheduler; a thread can be switched at every Parser.Lex call (overlay hook), every error callback, every Write of the printer and dumper, every EnterNode/LeaveNode of the resolver (and, in two scenarios, at every scanner restart). Depth-first enumeration of ALL schedules with <= 1 preemption over all of these points plus every scanner restart, and of ALL schedules with <= 2 preemptions over the coarser point set (Lex calls, error callbacks, every printer write, every 8th dumper write, EnterNode) (thorough: 3 longer pipelines, bound 3 on short programs, bound 2 over all points for four scenarios), for 13 two-pipeline scenarios chosen to collide on anything global (same family, both families, same text, heredoc labels, error path, 7.2 vs 7.4, resolver tables, printer state) and one three-pipeline scenario. " +
			"Oracle: every observation of every pipeline (tree with tokens and positions, printed bytes, dump text, error list, sorted resolved names, input buffer) equals its sequential baseline in every schedule; two sequential runs agree. states = schedules executed, transitions = scheduling decisions taken; distinct outcome vectors per scenario must be 1. Plus sequential histories: every sequence of <= 3 pipelines over 18 programs (errors at the start/end of input, unterminated constructs, both families) — the last result must equal the result of that pipeline alone in a fresh process. A free-running -race pass over the same pipelines complements this (sampling, never deciding).",
		Assume: []string{"interference finer than the yield points is left to the race detector pass"},
		Run:    c11Run,
		Replay: withCLIReplay(c11Replay),
	})
	_ = version.Version{}
}
