package main

import (
	"sort"

	"github.com/z7zmey/php-parser/verifmc/core"
	"github.com/z7zmey/php-parser/verifmc/corpus"
	"github.com/z7zmey/php-parser/verifmc/lexm"
	"github.com/z7zmey/php-parser/verifmc/lr"
)

// E-lr cells: for every state of the LALR automaton with an access sentence and every terminal, the
// program  access(state) terminal tail  — every cell of the action table, error cells included.

var cellTails = []string{"", " ;", " $a ; }"}

type cell struct {
	State int
	Term  string
	Tail  string
	It    *corpus.Item
}

// forCells calls fn for every realisable cell program (c.Next() sharding inside).
func forCells(c *core.Ctx, f *corpus.Fam, tails []string, fn func(cl cell)) {
	var states []int
	for s := range f.G.Access {
		states = append(states, s)
	}
	sort.Ints(states)
	if c.Shard == 0 || c.Replaying {
		c.P.States += int64(len(states)) // every state with an access sentence is driven (by some worker)
	}
	c.Max("lalr_states_"+f.Name, int64(len(f.A.Actions)))
	c.Max("lalr_states_with_access_sentence_"+f.Name, int64(len(states)))
	for _, s := range states {
		for _, t := range f.A.Terms {
			if !c.Next() {
				continue
			}
			toks := append(append([]string{}, f.G.Access[s]...), t)
			r := lexm.Render(toks, nil)
			if !r.OK {
				c.Stat("cells_unrealizable(renderer)", 1)
				continue
			}
			for _, tail := range tails {
				it := f.FromSource(r.Source()+tail, "")
				it.Toks = toks
				if !it.ScanOK {
					c.Stat("cells_scanner_failed", 1)
					continue
				}
				c.P.Trans++
				fn(cell{s, t, tail, it})
			}
		}
	}
}

// cellsConsulted: the (state, terminal) cells the reference driver consults on the scanner's tokens.
func cellsConsulted(f *corpus.Fam, it *corpus.Item, c *core.Ctx) {
	tr := &lr.Trace{WantCells: true}
	f.A.Run(it.Real, tr)
	_ = tr
}

func c01Cells(c *core.Ctx) {
	tails := cellTails[:1]
	if c.Thorough() {
		tails = cellTails
	}
	for _, fam := range []string{"php7", "php5"} {
		f := corpus.MustFam(fam)
		forCells(c, f, tails, func(cl cell) {
			for _, nocb := range []bool{false, true} {
				if nocb && !c.Thorough() && fam == "php7" {
					continue
				}
				cs := mkCase(cl.It.Src, f.V, "LR cell: state "+itoa(cl.State)+" + "+cl.Term)
				cs.NoCB = nocb
				c01One(c, cs)
				c.Stat("cell_parses", 1)
			}
			c.NontrivialH(core.Hash(cl.It.Src))
		})
	}
}
