package main

import (
	"strings"

	"github.com/z7zmey/php-parser/pkg/ast"
	"github.com/z7zmey/php-parser/verifmc/astx"
	"github.com/z7zmey/php-parser/verifmc/core"
	"github.com/z7zmey/php-parser/verifmc/corpus"
	"github.com/z7zmey/php-parser/verifmc/drive"
)

// E-pairs — sequential composition of corpus programs: every ordered pair (P, S) of valid corpus programs of one
// family written one after the other as ONE program. goyacc does not clear `$$` before an action and keeps reduced
// values in stack slots above the top, so a production without an explicit `$$ = …` (or one that reads a slot it
// should not) yields whatever an EARLIER, unrelated part of the parse left behind: such a defect is invisible on
// every program that exercises the production alone and shows only after a particular predecessor. The pair space
// (2-path programs as predecessors x rule-level programs as successors) puts every production after every
// production. The composite is judged only if the reference LR driver accepts the tokens the real scanner
// returns for it.

// pairLevel: corpus level of the predecessors (rules + 2-paths; thorough: + nullable combinations).
func pairLevel(c *core.Ctx) int {
	if c.Thorough() {
		return 3
	}
	return 2
}

func phpBody(src string) (string, bool) {
	if !strings.HasPrefix(src, "<?php ") {
		return "", false
	}
	return src[len("<?php "):], true
}

// forPairs enumerates the composites; levelP/levelS: corpus levels of predecessor and successor.
func forPairs(c *core.Ctx, f *corpus.Fam, levelP, levelS int, fn func(p, s *corpus.Item, src string)) {
	ps, ss := validItems(f, levelP), validItems(f, levelS)
	for _, p := range ps {
		if strings.Contains(p.Src, "__halt_compiler") || strings.Contains(p.Src, "?>") {
			continue // what follows is data resp. inline HTML, not a second program
		}
		for _, s := range ss {
			body, ok := phpBody(s.Src)
			if !ok {
				continue
			}
			if !c.Next() {
				continue
			}
			src := p.Src + "\n" + body
			it := f.FromSource(src, "pair")
			if !it.ScanOK || !it.Valid {
				c.Stat("pairs_not_valid_as_one_program(not used)", 1)
				continue
			}
			c.Stat("pairs_composed", 1)
			fn(p, s, src)
		}
	}
}

// stmtFPs: structural fingerprints of the top-level statements of a program (a single `namespace X;` statement
// that swallowed the rest is opened up).
func stmtFPs(root ast.Vertex) []string {
	r, ok := root.(*ast.Root)
	if !ok {
		return nil
	}
	var out []string
	for _, s := range r.Stmts {
		out = append(out, astx.StructFP(s))
	}
	return out
}

// pairContext: the statements of P and of S inside the composite must be the statements each of them has when
// parsed alone (structure and values; positions differ by construction).
func pairContext(c *core.Ctx, f *corpus.Fam, p, s *corpus.Item, src string) {
	res := drive.Parse([]byte(src), f.V, true)
	if !res.Clean() {
		return // judged by the callers' own oracles (valid program rejected / crash)
	}
	rp := drive.Parse([]byte(p.Src), f.V, true)
	rs := drive.Parse([]byte(s.Src), f.V, true)
	if !rp.Clean() || !rs.Clean() {
		return
	}
	a, b, ab := stmtFPs(rp.Root), stmtFPs(rs.Root), stmtFPs(res.Root)
	if len(ab) != len(a)+len(b) {
		c.Stat("pairs_where_one_statement_absorbs_the_next(not compared)", 1)
		return
	}
	c.Stat("pairs_compared_with_the_parts_parsed_alone", 1)
	cs := mkCase(src, f.V, "pair of corpus programs")
	for i, fp := range ab {
		want, which := "", "first"
		if i < len(a) {
			want = a[i]
		} else {
			want, which = b[i-len(a)], "second"
		}
		if fp != want {
			r := res.Root.(*ast.Root)
			var alone ast.Vertex
			if i < len(a) {
				alone = rp.Root.(*ast.Root).Stmts[i]
			} else {
				alone = rs.Root.(*ast.Root).Stmts[i-len(a)]
			}
			l, w := astx.Diff(alone, r.Stmts[i], false)
			c.Report("a statement parses differently after/before another statement than alone ("+f.Name+"): "+l, mkWhat("the %s program's statement in %q: %s", which, src, w), cs)
			return
		}
	}
}

// deepCases: nesting, chains and single tokens whose size grows with n (corpus.DeepPrograms), under both families, with
// production pool blocks (the programs have thousands of tokens).
func deepCases(c *core.Ctx) []srcCase {
	ns := []int{40, 400}
	if c.Thorough() {
		ns = []int{40, 400, 3000}
	}
	var out []srcCase
	for _, n := range ns {
		for _, src := range corpus.DeepPrograms(n) {
			for _, v := range []string{"7.4", "5.6"} {
				cs := mkCase(src, parseVer(v), "deep nesting / long chain / long token, n="+itoa(n))
				cs.Text = clipS(cs.Text, 120)
				cs.Block = drive.ProdBlock
				out = append(out, cs)
			}
		}
	}
	// interpolating strings more than 1024 block levels deep
	nb := 1100
	if c.Thorough() {
		nb = 2000
	}
	for _, src := range corpus.DeepBraces(nb) {
		for _, v := range []string{"7.4", "5.6"} {
			cs := mkCase(src, parseVer(v), "interpolating strings "+itoa(nb)+" block levels deep")
			cs.Text = clipS(cs.Text, 120)
			cs.Block = drive.ProdBlock
			out = append(out, cs)
		}
	}
	// wide programs: every construct more than 1024 times in one parse (production blocks), under the parser that has it
	for _, src := range corpus.WidePrograms(1100) {
		for _, v := range []string{"7.4", "5.6"} {
			cs := mkCase(src, parseVer(v), "one statement form 1100 times")
			cs.Text = clipS(cs.Text, 120)
			cs.Block = drive.ProdBlock
			out = append(out, cs)
		}
	}
	return out
}
