package main

import (
	"bytes"
	"strconv"
	"strings"

	"github.com/z7zmey/php-parser/verifmc/astx"
	"github.com/z7zmey/php-parser/verifmc/core"
	"github.com/z7zmey/php-parser/verifmc/corpus"
	"github.com/z7zmey/php-parser/verifmc/drive"
	"github.com/z7zmey/php-parser/verifmc/lexm"
)

// C08 — whitespace, line endings and comments never change the structure.

// loneCROnly: the whole error list consists of "unexpected character" warnings located at carriage
// returns that are not followed by a line feed (the recorded scanner defect) — nothing else is absorbed.
func loneCROnly(src []byte, res *drive.Result) bool {
	if res.NErr() == 0 {
		return false
	}
	for _, e := range res.Errs {
		// recognised by what it selects (exactly the carriage return), not by its wording
		if e == nil || e.Pos == nil || e.Pos.EndPos != e.Pos.StartPos+1 {
			return false
		}
		p := e.Pos.StartPos
		if p < 0 || p >= len(src) || src[p] != '\r' || (p+1 < len(src) && src[p+1] == '\n') {
			return false
		}
	}
	return true
}

func triviaKind(why string) string {
	if i := strings.Index(why, " trivia="); i >= 0 {
		return why[i+8:]
	}
	return "layout"
}

// c08One: cs.Base = baseline layout, cs.Src = deviated layout of the same token string.
func c08One(c *core.Ctx, cs srcCase) {
	setBlock(&cs)
	v := parseVer(cs.Ver)
	base := drive.Parse(cs.Base, v, true)
	if !base.Clean() {
		c.Stat("baseline_not_error_free(not judged)", 1)
		return
	}
	res := drive.Parse(cs.Src, v, true)
	if !res.OK() {
		c.Stat("crashed_or_hung(C01 domain)", 1)
		return
	}
	c.NontrivialH(core.Hash(cs.Ver + string(cs.Src)))
	kind := triviaKind(cs.Why)
	if bytes.Contains(bytes.ToLower(cs.Base), []byte("__halt_compiler")) && !strings.HasPrefix(cs.Why, "special") {
		// one family for the recorded halt-compiler defect, whatever the trivia
		halt := func(what string) {
			c.Report("[program with __halt_compiler] "+what, mkWhat("%q vs %q", cs.Base, cs.Src), cs)
		}
		if res.NErr() > 0 || res.Root == nil {
			halt("a change of trivia between `__halt_compiler`, `(`, `)` and `;` makes the program report errors")
		} else if astx.StructFP(res.Root) != astx.StructFP(base.Root) {
			halt("a change of trivia between `__halt_compiler`, `(`, `)` and `;` changes the structure")
		} else {
			c.Stat("layouts_compared", 1)
		}
		return
	}
	if res.NErr() > 0 || res.Root == nil {
		if loneCROnly(cs.Src, &res) {
			c.Report("a lone CR between tokens is reported as an unexpected character", mkWhat("%s in %q", errList(res.Errs), cs.Src), cs)
			// the CR is dropped from the token stream; the structure is still compared
			if res.Root != nil && astx.StructFP(res.Root) != astx.StructFP(base.Root) {
				l, w := astx.Diff(base.Root, res.Root, false)
				c.Report("structure changes with trivia "+kind+": "+l, mkWhat("%s: %q vs %q", w, cs.Base, cs.Src), cs)
			}
			return
		}
		c.Report("a valid program reports errors after a change of trivia ("+kind+")", mkWhat("%s: %q vs %q", errList(res.Errs), cs.Base, cs.Src), cs)
		return
	}
	c.Stat("layouts_compared", 1)
	if cs.Aux == "kinds" {
		// a whole-file change of the line terminator also changes the text inside strings, heredocs and inline
		// HTML: the values differ legitimately, the node kinds and nesting must not
		if a, b := kindSkeleton(base.Root), kindSkeleton(res.Root); a != b {
			c.Report("node kinds change when every LF of the file becomes "+kind, mkWhat("%q vs %q: %s vs %s", cs.Base, cs.Src, clipS(a, 160), clipS(b, 160)), cs)
		}
		return
	}
	if astx.StructFP(res.Root) != astx.StructFP(base.Root) {
		l, w := astx.Diff(base.Root, res.Root, false)
		c.Report("structure changes with trivia "+kind+": "+l, mkWhat("%s: %q vs %q", w, cs.Base, cs.Src), cs)
	}
}

func c08Deviations(it *corpus.Item, two bool, fn func(src, why string)) {
	if it.R == nil {
		return
	}
	fn(corpus.UniqueTrivia(it.R), it.Why+" trivia=unique comment in every gap")
	gaps := corpus.Gaps(it.R)
	for _, g := range gaps {
		for _, t := range lexm.TriviaAlphabet {
			if text, ok := corpus.Allowed(it.R, g, t); ok {
				fn(corpus.WithGap(it.R, g, text), it.Why+" trivia="+strconv.Quote(t.Text))
			}
		}
	}
	if two {
		forTwoDeviations(it, func(src, why string) { fn(src, it.Why+" trivia=two neighbouring gaps") })
	}
	for _, l := range [][2]string{{"\r\n", "\r\n"}, {"\n", "\n"}, {" /*c*/ ", " "}, {"\t//c\n", "\t"}, {"#c\r\n", "\r\n"}, {"", " "},
		// comments whose end is preceded by more stars, with more comments behind them
		{" /* c **/ ", " "}, {" /** d ***/", " "}, {" /***/ /**/", " "}} {
		fn(corpus.Layout(it.R, l[0], l[1]), it.Why+" trivia=same trivia in every gap: "+strconv.Quote(l[0]))
	}
}

func c08Run(c *core.Ctx) {
	level := 2
	if c.Thorough() {
		level = 6
	}
	for _, fam := range []string{"php7", "php5"} {
		f := corpus.MustFam(fam)
		for _, it := range validItems(f, level) {
			if !it.AsIntended {
				continue // the scanner reads this text differently from the token string it was rendered from (e.g. `{a` inside backquotes is plain text): its "gaps" are not gaps
			}
			two := c.Thorough() && countSub(it.Why, "pos") <= 1 && countSub(it.Why, "pair") == 0
			c08Deviations(it, two, func(src, why string) {
				if src == it.Src || !c.Next() {
					return
				}
				cs := mkCase(src, f.V, why)
				cs.Base = []byte(it.Src)
				c08One(c, cs)
				c.Sample(cs)
			})
		}
	}
	// whole-file line-terminator conversion of every special and of the heredoc shapes
	for _, src := range append(corpus.Specials(), c09Heredocs()...) {
		if !strings.Contains(src, "\n") || strings.Contains(src, "\r") {
			continue
		}
		for _, v := range []string{"7.4", "7.2", "5.6"} {
			if !c.Next() {
				continue
			}
			cs := mkCase(strings.Replace(src, "\n", "\r\n", -1), parseVer(v), "whole file trivia=CRLF")
			cs.Base = []byte(src)
			cs.Aux = "kinds"
			c08One(c, cs)
		}
	}
	// hand-written pairs: layouts of the specials that differ only in trivia
	for _, p := range c08Pairs {
		for _, v := range []string{"7.4", "5.6"} {
			if !c.Next() {
				continue
			}
			cs := mkCase(p[1], parseVer(v), "special trivia="+strconv.Quote(p[2]))
			cs.Base = []byte(p[0])
			c08One(c, cs)
		}
	}
	// blanks inside a heredoc / nowdoc opener (between `<<<` and the label or its quote): every opener form, every body form
	for _, op := range [][2]string{{"<<<", "A"}, {"<<<", "\"A\""}, {"<<<", "'A'"}, {"b<<<", "A"}, {"b<<<", "'A'"}, {"B<<<", "\"A\""}} {
		for _, bl := range []string{" ", "\t", " \t "} {
			for _, body := range []string{"x", "$x", "{$y}", "${z}", "a $x[0] b $y->c", "\\$x", "x\n  $x\n", "{$a[\"k\"]}"} {
				for _, v := range []string{"7.4", "7.2", "5.6"} {
					if !c.Next() {
						continue
					}
					cs := mkCase("<?php $a = "+op[0]+bl+op[1]+"\n"+body+"\nA;\n$b;", parseVer(v), "special trivia=\"blank inside a heredoc or nowdoc opener\"")
					cs.Base = []byte("<?php $a = " + op[0] + op[1] + "\n" + body + "\nA;\n$b;")
					c08One(c, cs)
				}
			}
		}
	}
}

// {baseline, variant, what changed}
var c08Pairs = [][3]string{
	{"<?php $a; $b; $c;", "<?php /* n **/ $a; /* o */ $b; /** p ***/ $c; /*q*/", "comments that end in a run of stars"},
	{"<?php f($a, $b);", "<?php f(/***/$a,/**/ $b /****/);/* */", "comments made of stars only"},
	{"<?php $a; ?>", "<?php $a;?>", "no blank before close tag"},
	{"<?php $a; ?>", "<?php $a;\n?>", "newline before close tag"},
	{"<?php $a; ?>", "<?php $a; /*c*/ ?>", "comment before close tag"},
	{"<?php $a; ?>", "<?php $a; //c\n?>", "one-line comment before close tag"},
	{"<?php $a ?>", "<?php $a /*c*/ ?>", "comment before close tag (no semicolon)"},
	{"<?php $a ?>", "<?php $a //c ?>", "one-line comment ended by close tag"},
	{"<?php $a ?>x", "<?php $a #c ?>x", "hash comment ended by close tag"},
	{"<?php $a; ?>\nx", "<?php $a; ?>\r\nx", "CRLF after close tag"},
	{"<?php\n$a;", "<?php\r\n$a;", "CRLF after open tag"},
	{"<?php\n$a;", "<?php\t$a;", "tab after open tag"},
	{"<?php __halt_compiler();x", "<?php __halt_compiler ( ) ;x", "blanks inside halt compiler"},
	{"<?php __halt_compiler();x", "<?php __halt_compiler/*c*/(/*c*/)/*c*/;x", "comments inside halt compiler"},
	{"<?php __halt_compiler();x", "<?php __halt_compiler\n(\n)\n;x", "newlines inside halt compiler"},
	{"<?php function f() { yield from $a; }", "<?php function f() { yield\nfrom $a; }", "newline inside yield from"},
	{"<?php function f() { yield from $a; }", "<?php function f() { yield  \t from $a; }", "blanks inside yield from"},
	{"<?php (int)$a;", "<?php ( int )$a;", "blanks inside cast"},
	{"<?php (int)$a;", "<?php (\tint\t)$a;", "tabs inside cast"},
	{"<?php $a->b;", "<?php $a -> b;", "blanks around ->"},
	{"<?php $a->b;", "<?php $a\n->\nb;", "newlines around ->"},
	{"<?php $a->b;", "<?php $a/*c*/->/*c*/b;", "comments around ->"},
	{"<?php $a->b;", "<?php $a-> /*c*/ b;", "comment after ->"},
	{"<?php $a->class;", "<?php $a->\n class;", "newline before keyword property"},
	{"<?php A::b;", "<?php A :: b;", "blanks around ::"},
	{"<?php A::class;", "<?php A::/*c*/class;", "comment before ::class"},
	{"<?php a\\b;", "<?php a \\ b;", "blanks inside name"},
	{"<?php namespace\\a;", "<?php namespace \\ a;", "blanks inside relative name"},
	{"<?php $a = <<<A\nx\nA;\n$b;", "<?php $a = <<<A\nx\nA;\r\n$b;", "CRLF after the semicolon that follows a heredoc closer"},
	{"<?php $a = <<<'A'\nx\nA;\n$b;", "<?php $a = <<<'A'\nx\nA;\r\n$b;", "CRLF after the semicolon that follows a nowdoc closer"},
	{"<?php $a = <<<A\nx\nA\n;", "<?php $a = <<<A\nx\nA\r\n;", "CRLF after a heredoc closer"},
	{"<?php $a = <<<A\nx\nA;\n", "<?php $a = <<<A\nx\nA\n;\n", "newline after heredoc closer"},
	{"<?php $a = <<<A\nx\nA;\n", "<?php $a = <<< A\nx\nA;\n", "blank inside heredoc opener"},
	{"<?php $a = <<<A\nx\nA;\n", "<?php $a =/*c*/<<<A\nx\nA;\n", "comment before heredoc"},
	{"<?php if ($a): ?>x<?php endif;", "<?php if ($a)/*c*/: /*c*/ ?>x<?php /*c*/ endif /*c*/;", "comments in alternative syntax"},
	{"<?php $a ? $b : $c;", "<?php $a?$b:$c;", "no blanks in ternary"},
	{"<?php $a ?: $c;", "<?php $a ? : $c;", "blank inside short ternary"},
	{"<?php $a ?: $c;", "<?php $a ?/*c*/: $c;", "comment inside short ternary"},
	{"<?php f(...$a);", "<?php f(... $a);", "blank after spread"},
	{"<?php function f(?int $a) {}", "<?php function f(? int $a) {}", "blank after nullable mark"},
	{"<?php function &f() {}", "<?php function & f() {}", "blanks around reference mark"},
	{"<?php $a = &$b;", "<?php $a =& $b;", "reference assignment spacing"},
	{"<?php $a = &$b;", "<?php $a = /*c*/ & /*c*/ $b;", "comments in reference assignment"},
	{"<?php declare(ticks=1);", "<?php declare ( ticks = 1 ) ;", "blanks in declare"},
	{"<?php static fn() => 1;", "<?php static/*c*/fn/*c*/(/*c*/)/*c*/=>/*c*/1;", "comments in arrow function"},
	{"<?php a: goto a;", "<?php a : goto a;", "blank before label colon"},
	{"<?php a: goto a;", "<?php a/*c*/: goto a;", "comment before label colon"},
	{"<?php echo \"$a[0]\";", "<?php echo\n\"$a[0]\";", "newline before interpolated string"},
	{"<?php new class {};", "<?php new\nclass\n{\n}\n;", "newlines in anonymous class"},
	{"<?php use A\\{B, C};", "<?php use A\\ { B , C } ;", "blanks in group use"},
	{"<?php try {} catch (A | B $e) {}", "<?php try{}catch(A|B$e){}", "no blanks in try/catch"},
	{"<?php $a{0};", "<?php $a { 0 } ;", "blanks in curly offset"},
	{"<?php ${'a'};", "<?php $ { 'a' } ;", "blanks in variable variable"},
	{"<?php $$a;", "<?php $ $a;", "blank in variable variable"},
	{"<?php $$a;", "<?php $/*c*/$a;", "comment in variable variable"},
}

func init() {
	register(&core.Check{
		Prop: "C08", Level: "exploration", Exhaust: true, QuickSecs: 400, ThorSecs: 3000,
		Rule: "every valid program of the E-lr corpora of both grammars (rules, 2-paths; thorough: nullable combinations, 3-paths, pairs of positions): baseline layout (one blank per gap) versus a unique comment in every gap, every single gap set to each of 18 trivia (deletion where the neighbours stay separate tokens, blanks, tab, LF, CRLF, lone CR, block/doc/one-line/hash comments with each terminator, mixes), six whole-program layouts, thorough: pairs of neighbouring gaps; plus every special and 2496 heredoc shapes with every LF turned into CRLF (node kinds must not change), plus 52 hand-written pairs for the places where PHP's lexical grammar is delicate (close tag, halt compiler, casts, yield from, ->, names, heredoc, ternary, labels). " +
			"Oracle: the deviated layout parses without errors and its structural fingerprint (kinds, nesting, roles, values — no tokens, no positions) equals the baseline's. non-trivial = deviated program parsed; distinct by (version, source)",
		Assume: []string{"gaps where PHP restricts trivia (inside a cast, yield…from, heredoc opener/closer lines, after the open tag) only get the trivia PHP allows there (mc/corpus.Allowed)"},
		Run:    c08Run,
		Replay: replaySrc(c08One),
	})
}
