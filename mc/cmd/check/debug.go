package main

import (
	"fmt"
	"os"
	"strconv"
	"strings"

	"github.com/z7zmey/php-parser/verifmc/corpus"
	"github.com/z7zmey/php-parser/verifmc/drive"
)

// check debug-corpus <fam> <level>: statistics of the generated corpus (not a check).
func init() {
	if len(os.Args) > 1 && os.Args[1] == "debug-corpus" {
		fam, level := os.Args[2], 2
		if len(os.Args) > 3 {
			level, _ = strconv.Atoi(os.Args[3])
		}
		drive.SetBlockSize(4)
		f := corpus.MustFam(fam)
		items := f.Items(level)
		var nScan, nInt, nValid, nAgree, maxLen int
		used := map[int]bool{}
		for _, it := range items {
			if !it.ScanOK {
				fmt.Printf("SCANFAIL %q\n", it.Src)
				continue
			}
			nScan++
			if it.AsIntended {
				nInt++
			} else if len(os.Args) > 4 {
				fmt.Printf("NOTINTENDED %s\n   src=%q\n   want=%v\n   real=%v\n", it.Why, it.Src, it.Toks, it.Real)
			}
			if len(it.Toks) > maxLen {
				maxLen = len(it.Toks)
			}
			if it.Valid {
				nValid++
				for _, r := range it.Reduced {
					used[r] = true
				}
			}
			res := drive.Parse([]byte(it.Src), f.V, true)
			if res.OK() && (it.Valid == (res.NErr() == 0)) {
				nAgree++
			} else {
				fmt.Printf("DISAGREE valid=%v nerr=%d panic=%v hang=%v why=%s\n   src=%q\n", it.Valid, res.NErr(), res.Panic, res.Hang, it.Why, it.Src)
			}
		}
		fmt.Printf("%s level %d: items=%d scanned=%d asIntended=%d driverValid=%d agree=%d maxTokens=%d rulesReduced=%d/%d states=%d\n",
			fam, level, len(items), nScan, nInt, nValid, nAgree, maxLen, len(used), len(f.A.Rules), len(f.A.Actions))
		for _, n := range f.A.RuleNum {
			if !used[n] {
				fmt.Println("   never reduced:", f.A.Rules[n])
			}
		}
		if bad := f.A.Unbalanced(); len(bad) > 0 {
			fmt.Println("unbalanced rules:", bad)
		}
		os.Exit(0)
	}
}

// check debug-sx <version> <source…>: tree of a program in SX notation, errors, printed and formatted text.
func init() {
	if len(os.Args) > 3 && os.Args[1] == "debug-sx" {
		drive.SetBlockSize(4)
		for _, src := range os.Args[3:] {
			res := drive.Parse([]byte(src), parseVer(os.Args[2]), true)
			fmt.Printf("%q under %s\n  errors: %s\n", src, os.Args[2], errList(res.Errs))
			if res.Root != nil {
				fmt.Printf("  tree: %s\n", allStmtsSX(res.Root))
				out, pan, _ := formatPrint(res.Root)
				fmt.Printf("  formatted: %q %v\n", out, pan)
			}
		}
		os.Exit(0)
	}
}

// check debug-parse <file>: parses every Go-quoted line of the file under 7.4, 7.2 and 5.6 (with the
// coverage-instrumented build: which scanner blocks does a candidate input reach?). Not a check.
func init() {
	if len(os.Args) > 2 && os.Args[1] == "debug-parse" {
		drive.SetBlockSize(4)
		b, err := os.ReadFile(os.Args[2])
		if err != nil {
			fmt.Println(err)
			os.Exit(2)
		}
		n := 0
		for _, l := range strings.Split(string(b), "\n") {
			s, err := strconv.Unquote(strings.TrimSpace(l))
			if err != nil {
				continue
			}
			for _, v := range []string{"7.4", "7.2", "5.6"} {
				for cut := 0; cut <= len(s); cut++ {
					drive.Parse([]byte(s[:cut]), parseVer(v), true)
					n++
				}
			}
		}
		fmt.Println("parsed", n)
		os.Exit(0)
	}
}
