package main

import (
	"bytes"
	"runtime/debug"
	"strings"

	"github.com/z7zmey/php-parser/pkg/ast"
	"github.com/z7zmey/php-parser/pkg/version"
	"github.com/z7zmey/php-parser/pkg/visitor/formatter"
	"github.com/z7zmey/php-parser/pkg/visitor/printer"
	"github.com/z7zmey/php-parser/verifmc/astx"
	"github.com/z7zmey/php-parser/verifmc/core"
	"github.com/z7zmey/php-parser/verifmc/corpus"
	"github.com/z7zmey/php-parser/verifmc/drive"
	"github.com/z7zmey/php-parser/verifmc/synm"
)

// C17 — formatting preserves the program, is canonical and idempotent.

// formatPrint formats the tree in place and prints it; loc is the innermost formatter/printer function when
// one of them panics.
func formatPrint(root ast.Vertex) (out string, pan interface{}, loc string) {
	defer func() {
		if r := recover(); r != nil {
			pan = r
			loc = fmtPanicLoc(string(debug.Stack()))
		}
	}()
	root.Accept(formatter.NewFormatter())
	b := &bytes.Buffer{}
	root.Accept(printer.NewPrinter(b))
	return b.String(), nil, ""
}

func fmtPanicLoc(stack string) string {
	seen := false
	for _, l := range strings.Split(stack, "\n") {
		if strings.HasPrefix(l, "panic(") {
			seen = true
			continue
		}
		if seen && strings.HasPrefix(l, "github.com/z7zmey/php-parser/pkg/") {
			f := strings.TrimPrefix(l, "github.com/z7zmey/php-parser/")
			if i := strings.LastIndex(f, "("); i > 0 {
				f = f[:i]
			}
			return f
		}
	}
	return "?"
}

// kindsOf: the set of node kinds in a tree, for blaming a structural difference on the kinds involved.
func firstKindDiff(a, b ast.Vertex) string {
	l, w := astx.Diff(a, b, false)
	return l + " (" + w + ")"
}

func c17One(c *core.Ctx, cs srcCase) {
	setBlock(&cs)
	v := parseVer(cs.Ver)
	res := drive.Parse(cs.Src, v, true)
	if !res.Clean() {
		c.Stat("source_not_error_free(not judged)", 1)
		return
	}
	c.NontrivialH(core.Hash(cs.Ver + string(cs.Src)))
	fp0 := astx.StructFP(res.Root)
	ref := drive.Parse(cs.Src, v, true) // unformatted twin for blaming
	fam := famOf(v)
	mixed := ""
	if c17Heredoc(ref.Root) && (v.Major == 5 || v.Minor < 3) {
		// the formatter writes `EOT` directly followed by the next token, which PHP < 7.3 does not accept
		// unless that token is `;`; on 7.3+ the pinned empty-heredoc scanner defect is met instead
		mixed = "[program with a heredoc, PHP < 7.3]"
	} else if c17Heredoc(ref.Root) {
		mixed = "[program with a heredoc, PHP >= 7.3]"
	}
	if c17Mixed(ref.Root) {
		mixed = "[program that leaves PHP mode: inline HTML, close tag, halt-compiler tail or shebang]"
		c.Stat("programs_leaving_php_mode", 1)
	}
	out, pan, loc := formatPrint(res.Root)
	if pan != nil {
		c.Report("formatter panics in "+loc+": "+drive.PanicMsg(pan), mkWhat("%q", cs.Src), cs)
		return
	}
	c.Stat("formatted", 1)
	r2 := drive.Parse([]byte(out), v, true)
	if !r2.OK() {
		c.Report("formatted text crashes the parser", mkWhat("%q => %q", cs.Src, out), cs)
		return
	}
	if r2.NErr() > 0 || r2.Root == nil {
		blame := c17Blame(ref.Root, out, r2)
		if mixed != "" {
			blame = mixed
			// the recorded symptom is about text in front of the first open tag (inline HTML or a shebang line at the start of
			// the file gets an open tag of its own); a program that starts in PHP mode is not part of it
			if strings.Contains(mixed, "leaves PHP mode") && bytes.HasPrefix(cs.Src, []byte("<?")) {
				blame = "a program that starts with an open tag and leaves PHP mode later: " + c17Blame(ref.Root, out, r2)
			}
		}
		c.Report("formatted text does not parse ("+fam+"): "+blame, mkWhat("%q => %q: %s", cs.Src, out, errList(r2.Errs)), cs)
		return
	}
	if astx.StructFP(r2.Root) != fp0 {
		blame := firstKindDiff(ref.Root, r2.Root)
		if mixed != "" {
			blame = mixed
			// the recorded family is about the statements of the mode switch itself (empty statements and inline HTML
			// appearing, vanishing or losing the newline a close tag swallows); anything else that differs is not part of it
			skip := map[string]bool{"StmtNop": true, "StmtInlineHtml": true}
			// (a shebang line followed by inline HTML is the other recorded symptom: the HTML gets an open tag and becomes code)
			if strings.Contains(mixed, "leaves PHP mode") && !bytes.HasPrefix(cs.Src, []byte("#!")) && astx.StructFPSkip(r2.Root, skip) != astx.StructFPSkip(ref.Root, skip) {
				blame = "a program that leaves PHP mode differs in more than empty statements and inline HTML: " + firstKindDiff(ref.Root, r2.Root)
			}
		}
		c.Report("formatted text parses to a different structure ("+fam+"): "+blame, mkWhat("%q => %q", cs.Src, out), cs)
		return
	}
	out2, pan2, loc2 := formatPrint(r2.Root)
	if pan2 != nil {
		c.Report("formatter panics on formatted text in "+loc2+": "+drive.PanicMsg(pan2), mkWhat("%q => %q", cs.Src, out), cs)
		return
	}
	if out2 != out {
		c.Report("formatting is not idempotent: "+c17DiffLocus(r2.Root, out, out2), mkWhat("%q => %q => %q", cs.Src, out, out2), cs)
	}
	// canonical: every other layout of the same program formats to the same text
	if len(cs.Base) > 0 && !strings.Contains(string(cs.Src), "__halt_compiler") { // what follows __halt_compiler is data, not layout
		rb := drive.Parse(cs.Base, v, true)
		if rb.Clean() && astx.StructFP(rb.Root) == fp0 {
			outB, panB, _ := formatPrint(rb.Root)
			if panB == nil && outB != out {
				c.Stat("layout_pairs_compared", 1)
				c.Report("formatted text depends on the layout of the source: "+c17DiffLocus(r2.Root, outB, out), mkWhat("%q => %q but %q => %q", cs.Base, outB, cs.Src, out), cs)
			} else if panB == nil {
				c.Stat("layout_pairs_compared", 1)
			}
		}
	}
}

// c17Mixed: the program leaves PHP mode somewhere (inline HTML, a close tag, a __halt_compiler tail, a
// shebang line) — the formatter's handling of mode switches is a recorded finding, keyed separately so
// that it does not absorb anything about pure-PHP programs.
func c17Mixed(root ast.Vertex) bool {
	for _, n := range astx.PreOrder(root) {
		switch astx.KindName(n) {
		case "StmtInlineHtml", "StmtHaltCompiler":
			return true
		}
	}
	for _, tr := range astx.Tokens(root) {
		if bytes.HasSuffix(tr.Tok.Value, []byte("?>")) || bytes.HasPrefix(tr.Tok.Value, []byte("#!")) || bytes.HasPrefix(tr.Tok.Value, []byte("<?=")) {
			return true
		}
	}
	return false
}

func c17Heredoc(root ast.Vertex) bool {
	for _, n := range astx.PreOrder(root) {
		if astx.KindName(n) == "ScalarHeredoc" {
			return true
		}
	}
	return false
}

// c17DiffLocus: the node kind owning the token at the first differing byte of two formatted texts
// (a, parsed as root, vs b).
func c17DiffLocus(root ast.Vertex, a, b string) string {
	i := 0
	for i < len(a) && i < len(b) && a[i] == b[i] {
		i++
	}
	loc := "end of text"
	for _, tr := range astx.Tokens(root) {
		if tr.Tok.Position != nil && tr.Tok.Position.EndPos > i {
			loc = "at " + astx.KindName(tr.Owner) + "." + tr.Field
			break
		}
	}
	return loc
}

// c17Blame: the kind of the node that owns the first token at/after the first syntax error.
func c17Blame(orig ast.Vertex, out string, r2 drive.Result) string {
	kinds := map[string]bool{}
	for _, n := range astx.PreOrder(orig) {
		kinds[astx.KindName(n)] = true
	}
	// innermost: the deepest, last kind in pre-order that is not a leaf wrapper — a stable, input-free locus
	var last string
	for _, n := range astx.PreOrder(orig) {
		k := astx.KindName(n)
		if k != "Root" && k != "StmtExpression" && k != "ExprVariable" && k != "Identifier" && k != "Name" && k != "NamePart" && k != "ScalarLnumber" {
			last = k
			break
		}
	}
	return "first construct " + last
}

func c17Run(c *core.Ctx) {
	level := 3
	if c.Thorough() {
		level = 6
	}
	for _, fam := range []string{"php7", "php5"} {
		f := corpus.MustFam(fam)
		for _, it := range validItems(f, level) {
			c.SetAdd("rules_"+fam, itoa(it.Rule))
			if it.R == nil {
				continue
			}
			// every alternative spelling of every token (keyword case, cast spellings, number and string forms)
			if it.Rule >= 0 && countSub(it.Why, "child") < 2 {
				forDeviations(it, false, true, func(src, why string) {
					if why == it.Why || !c.Next() {
						return
					}
					c17One(c, mkCase(src, f.V, why))
				})
			}
			layouts := []string{
				it.Src,
				corpus.Layout(it.R, "", " "),
				corpus.Layout(it.R, "\r\n\t", "\t"),
				corpus.Layout(it.R, "\n\n    ", "  "),
				it.Src + " \n\n\t", // trailing blanks at the end of the file
			}
			seen := map[string]bool{}
			for li, s := range layouts {
				if seen[s] {
					continue
				}
				seen[s] = true
				if !c.Next() {
					continue
				}
				cs := mkCase(s, f.V, it.Why)
				if li > 0 {
					cs.Base = []byte(it.Src)
				}
				c17One(c, cs)
				c.Sample(cs)
			}
		}
	}
	for _, fam := range []string{"php7", "php5"} {
		f := corpus.MustFam(fam)
		wideItems(f, true, func(it *corpus.Item, src, why string) {
			if c.Next() {
				c17One(c, mkCase(src, f.V, why))
			}
		})
	}
	// every flat operator expression the precedence model accepts (<= 3 operators; thorough 4): prefix and binary
	// operators next to each other are where the rebuilt tokens can fuse (`- --$a ** 2` must not become `---$a ** 2`)
	maxOps := 3
	if c.Thorough() {
		maxOps = 4
	}
	for _, fam5 := range []bool{false, true} {
		v := drive.V74
		if fam5 {
			v = drive.V56
		}
		c03Exprs(c, fam5, maxOps, func(toks []synm.Tok, txt []string) {
			if !c.Next() {
				return
			}
			if _, ok := synm.Parse(toks); !ok {
				return
			}
			c17One(c, mkCase("<?php "+strings.Join(txt, " ")+";", v, "flat operator expression"))
			c17One(c, mkCase("<?php "+strings.Join(txt, "")+";", v, "flat operator expression, no blanks"))
		})
	}
	for _, src := range corpus.ChainPrograms(3) {
		for _, v := range []*version.Version{drive.V74, drive.V56} {
			if c.Next() {
				c17One(c, mkCase(src, v, "postfix chain"))
			}
		}
	}
	for _, cs := range deepCases(c) {
		if strings.Contains(cs.Why, "2000 block levels") {
			continue // formatted text indents every line by its depth: quadratic output, left to the checks that do not format
		}
		if c.Next() {
			c17One(c, cs)
		}
	}
	for _, src := range corpus.Specials() {
		if !c.Next() {
			continue
		}
		c17One(c, mkCase(src, drive.V74, "special head/body/tail or literal form"))
	}
}

func init() {
	register(&core.Check{
		Prop: "C17", Level: "exploration", Exhaust: true, QuickSecs: 300, ThorSecs: 2400,
		Rule: "every valid program of the E-lr corpora of both grammars (rules, 2-paths, nullable combinations — every optional child present or absent; thorough: 3-paths) in four whitespace layouts, every token of the rule- and 2-path-level programs replaced by every alternative lexeme (one blank per gap, minimal, CRLF+tabs, blank lines+indent), plus the specials. " +
			"Oracle: format+print does not panic; the text re-parses with zero errors to the same structural fingerprint (kinds, roles, values); formatting the re-parsed text reproduces it byte for byte (idempotence); all whitespace layouts of one program format to the same text (canonical). Comments are not part of the layouts compared (the formatter drops free-floating tokens; what it must keep is structure and values). non-trivial = error-free source; distinct by (version, source)",
		Assume: []string{"finding keys name the formatter function that panics or the construct whose formatted text is wrong, never the input"},
		Run:    c17Run,
		Replay: replaySrc(c17One),
	})
}
