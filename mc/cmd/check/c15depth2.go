package main

import (
	"fmt"
	"strings"

	"github.com/z7zmey/php-parser/pkg/ast"
	"github.com/z7zmey/php-parser/pkg/token"
	"github.com/z7zmey/php-parser/verifmc/astx"
	"github.com/z7zmey/php-parser/verifmc/core"
)

// C15, depth 2: every kind with every kind in each of its child slots. The printer handles some
// parent/child combinations itself (alternative syntax: the parent prints the slots of its statement-list
// body), so slot order has to hold for nested nodes as well: every present marker of parent and child
// exactly once, in recursive declaration/print order, free-floating directly before its token.

type c15D2Case struct {
	Mode    string `json:"mode"` // "depth2"
	Kind    string `json:"kind"`
	Slot    string `json:"slot"`
	Child   string `json:"child"`
	Absent  string `json:"absent_parent_token,omitempty"` // one parent token slot left out ("" = none)
	ChildSp int    `json:"child_slot_mask"`               // bit i set: i-th slot of the child present (-1: all)
	HTML    bool   `json:"html_state"`
}

// wantMarkers: the markers of a synthetic tree in print order (values of nodes that have tokens are left out:
// a value stands in only for an absent token).
func wantMarkers(n ast.Vertex, out *[]string) {
	v, fs := astx.Elem(n)
	hasTok := false
	for _, p := range astx.Parts(n) {
		if p.Tok != nil {
			hasTok = true
		}
	}
	if !hasTok {
		for _, f := range fs {
			if f.Kind == astx.FValue && len(v.Field(f.Idx).Bytes()) > 0 {
				*out = append(*out, strings.Trim(string(v.Field(f.Idx).Bytes()), "\x01\x02"))
			}
		}
	}
	for _, p := range astx.Parts(n) {
		if p.Tok != nil {
			for _, ff := range p.Tok.FreeFloating {
				*out = append(*out, strings.Trim(string(ff.Value), "\x01\x02"))
			}
			*out = append(*out, strings.Trim(string(p.Tok.Value), "\x01\x02"))
		} else {
			wantMarkers(p.Node, out)
		}
	}
}

func c15D2(c *core.Ctx, cs c15D2Case) {
	mk, cmk := kindByName(cs.Kind), kindByName(cs.Child)
	if mk == nil || cmk == nil {
		return
	}
	_, fs := astx.Elem(mk())
	_, cfs := astx.Elem(cmk())
	spec := fullSpec(fs)
	for i, f := range fs {
		if f.Kind == astx.FValue {
			spec[i] = astx.SlotSpec{} // the parent has its tokens: its value is not printed
		}
		if cs.Absent != "" && f.Name == cs.Absent {
			spec[i] = astx.SlotSpec{}
		}
	}
	cspec := fullSpec(cfs)
	for i, f := range cfs {
		if f.Kind == astx.FValue {
			cspec[i] = astx.SlotSpec{}
		}
		if cs.ChildSp >= 0 && cs.ChildSp&(1<<uint(i)) == 0 {
			cspec[i] = astx.SlotSpec{}
		}
	}
	b := astx.Build(mk, spec, func(i, j int) ast.Vertex {
		if fs[i].Name == cs.Slot && j <= 0 {
			return astx.BuildTagged(cmk, cspec, func(a, k int) ast.Vertex { return astx.Leaf("c", a, k+1) }, "C").Node
		}
		if j < 0 {
			return astx.Leaf("N", i, 0)
		}
		return astx.Leaf("L", i, j)
	})
	out, pan := printNode(b.Node, cs.HTML)
	loc := cs.Kind + "." + cs.Slot + " holding " + cs.Child
	ctx := fmt.Sprintf("%s (parent without %q, child slot mask %d) → %q", loc, cs.Absent, cs.ChildSp, out)
	if pan != nil {
		c.Report("print (depth 2): panic with "+loc, fmt.Sprintf("%s: %v", ctx, pan), cs)
		return
	}
	segs, ok := splitMarkers(out)
	if !ok {
		c.Report("print (depth 2): broken marker with "+loc, ctx, cs)
		return
	}
	var want, got []string
	wantMarkers(b.Node, &want)
	for _, s := range segs {
		if s.marker != "" && !strings.HasPrefix(s.marker, "V") && !strings.HasPrefix(s.marker, "CV") {
			got = append(got, s.marker)
		}
	}
	var w2 []string
	for _, m := range want {
		if !strings.HasPrefix(m, "V") && !strings.HasPrefix(m, "CV") {
			w2 = append(w2, m)
		}
	}
	if strings.Join(got, " ") != strings.Join(w2, " ") {
		i := 0
		for i < len(got) && i < len(w2) && got[i] == w2[i] {
			i++
		}
		g, w := "<end>", "<end>"
		if i < len(got) {
			g = got[i]
		}
		if i < len(w2) {
			w = w2[i]
		}
		c.Report("print (depth 2): tokens/children of "+loc+" are not each printed once in order",
			fmt.Sprintf("%s: marker %d is %s, expected %s", ctx, i, g, w), cs)
	}
	_ = token.Token{}
}

func c15Depth2(c *core.Ctx) {
	for _, mk := range astx.Kinds {
		proto := mk()
		kn := astx.KindName(proto)
		_, fs := astx.Elem(proto)
		for _, i := range astx.SlotIdx(fs, astx.FNode, astx.FNodes) {
			for _, cmk := range astx.Kinds {
				ck := astx.KindName(cmk())
				for _, html := range []bool{false, true} {
					if !c.Next() {
						continue
					}
					cs := c15D2Case{Mode: "depth2", Kind: kn, Slot: fs[i].Name, Child: ck, ChildSp: -1, HTML: html}
					c15D2(c, cs)
					c.P.States++
					c.Stat("depth2_prints", 1)
				}
			}
			// statement-list body with every subset of its own slots, under every parent with one token left out
			_, cfs := astx.Elem(&ast.StmtStmtList{})
			absents := []string{""}
			for _, f := range fs {
				if f.Kind == astx.FTok {
					absents = append(absents, f.Name)
				}
			}
			for _, ab := range absents {
				for mask := 0; mask < 1<<uint(len(cfs)); mask++ {
					if !c.Next() {
						continue
					}
					cs := c15D2Case{Mode: "depth2", Kind: kn, Slot: fs[i].Name, Child: "StmtStmtList", Absent: ab, ChildSp: mask}
					c15D2(c, cs)
					c.P.States++
					c.Stat("depth2_prints", 1)
				}
			}
		}
	}
}
