package main

import (
	"strconv"
	"strings"

	"github.com/z7zmey/php-parser/pkg/version"
	"github.com/z7zmey/php-parser/verifmc/core"
	"github.com/z7zmey/php-parser/verifmc/corpus"
	"github.com/z7zmey/php-parser/verifmc/drive"
	"github.com/z7zmey/php-parser/verifmc/lexm"
	"github.com/z7zmey/php-parser/verifmc/oracle"
)

// C02 — parse then print reproduces the source.

func c02One(c *core.Ctx, cs srcCase) {
	setBlock(&cs)
	res := drive.Parse(cs.Src, parseVer(cs.Ver), true)
	disturb()
	if !res.OK() {
		c.Stat("crashed_or_hung(C01 domain)", 1)
		return
	}
	if res.NErr() > 0 || res.Root == nil {
		c.Stat("errors_reported(not judged)", 1)
		return
	}
	c.Stat("clean_parses_round_tripped", 1)
	c.NontrivialH(core.Hash(cs.Ver + string(cs.Src)))
	report(c, oracle.RoundTrip(cs.Src, res.Root), cs)
}

// forDeviations enumerates, for one corpus item, the baseline, the unique-trivia layout, every 1-deviation of
// trivia and every lexeme alternative; fn gets (source, description).
func forDeviations(it *corpus.Item, trivia, lexemes bool, fn func(src, why string)) {
	fn(it.Src, it.Why)
	if it.R == nil {
		return
	}
	fn(corpus.UniqueTrivia(it.R), it.Why+" unique-trivia")
	if trivia {
		for _, g := range corpus.Gaps(it.R) {
			for _, t := range lexm.TriviaAlphabet {
				if text, ok := corpus.Allowed(it.R, g, t); ok {
					fn(corpus.WithGap(it.R, g, text), it.Why+" gap-deviation")
				}
			}
		}
	}
	if lexemes && it.AsIntended {
		for i, t := range it.Toks {
			alts := lexm.Lexemes[t]
			for k := 1; k < len(alts); k++ {
				r := lexm.Render(it.Toks, map[int]string{i: alts[k]})
				if r.OK {
					fn(r.Source(), it.Why+" lexeme "+t)
				}
			}
		}
	}
}

func forTwoDeviations(it *corpus.Item, fn func(src, why string)) {
	if it.R == nil {
		return
	}
	gaps := corpus.Gaps(it.R)
	small := []lexm.Trivia{lexm.TriviaAlphabet[0], lexm.TriviaAlphabet[5], lexm.TriviaAlphabet[7], lexm.TriviaAlphabet[9], lexm.TriviaAlphabet[12], lexm.TriviaAlphabet[15]}
	for a := 0; a < len(gaps); a++ {
		for b := a + 1; b < len(gaps) && b <= a+2; b++ {
			for _, ta := range small {
				for _, tb := range small {
					xa, ok1 := corpus.Allowed(it.R, gaps[a], ta)
					xb, ok2 := corpus.Allowed(it.R, gaps[b], tb)
					if !ok1 || !ok2 {
						continue
					}
					var sb strings.Builder
					for j, p := range it.R.Pieces {
						switch j {
						case gaps[a]:
							sb.WriteString(xa)
						case gaps[b]:
							sb.WriteString(xb)
						default:
							sb.WriteString(p.Text)
						}
					}
					fn(sb.String(), it.Why+" two-gap-deviation")
				}
			}
		}
	}
}

// wideItems: the widest corpus (rules, 2-paths, nullable combinations, 3-paths, pairs of positions) in
// baseline layout and with unique trivia only — every check runs it besides its own deviation space.
func wideItems(f *corpus.Fam, validOnly bool, fn func(it *corpus.Item, src, why string)) {
	for _, it := range f.Items(6) {
		if !it.ScanOK || validOnly && !it.Valid {
			continue
		}
		fn(it, it.Src, it.Why)
		if it.R != nil && it.Valid {
			fn(it, corpus.UniqueTrivia(it.R), it.Why+" unique-trivia")
		}
	}
}

// chainPrograms: postfix chains (see corpus/chains.go), length by tier.
func chainPrograms(c *core.Ctx) []string {
	if c.Thorough() {
		return corpus.ChainPrograms(6)
	}
	return corpus.ChainPrograms(5)
}

// validItems: corpus programs the reference driver accepts (on the tokens the real scanner produced).
func validItems(f *corpus.Fam, level int) []*corpus.Item {
	var out []*corpus.Item
	for _, it := range f.Items(level) {
		if it.ScanOK && it.Valid {
			out = append(out, it)
		}
	}
	return out
}

func c02Run(c *core.Ctx) {
	level := 2
	if c.Thorough() {
		level = 6
	}
	for _, fam := range []string{"php7", "php5"} {
		f := corpus.MustFam(fam)
		for _, it := range validItems(f, level) {
			c.SetAdd("rules_"+fam, itoa(it.Rule))
			deep := true
			forDeviations(it, deep, deep, func(src, why string) {
				for vi, v := range famVersions[fam] {
					if vi > 0 && why != it.Why {
						continue // deviations under the family's newest version only; baselines under all
					}
					if !c.Next() {
						continue
					}
					cs := mkCase(src, v, why)
					c02One(c, cs)
					c.Sample(cs)
				}
			})
			if c.Thorough() && strings.Count(it.Why, "pos") <= 1 && strings.Count(it.Why, "pair") == 0 {
				forTwoDeviations(it, func(src, why string) {
					if c.Next() {
						c02One(c, mkCase(src, f.V, why))
					}
				})
			}
		}
		wideItems(f, true, func(it *corpus.Item, src, why string) {
			if c.Next() {
				c02One(c, mkCase(src, f.V, why))
			}
		})
		// E-pairs: every production after every production (values left on the yacc stack by a predecessor)
		forPairs(c, f, pairLevel(c), 1, func(p, s *corpus.Item, src string) {
			c02One(c, mkCase(src, f.V, "pair of corpus programs"))
		})
		// production pools: programs of several thousand tokens
		for _, big := range bigPrograms(f, 2500) {
			if !c.Next() {
				continue
			}
			cs := mkCase(big, f.V, "concatenated corpus statements, production pool blocks")
			cs.Block = drive.ProdBlock
			c02One(c, cs)
			c.Stat("large_programs_production_pools", 1)
		}
	}
	for _, cs := range deepCases(c) {
		if c.Next() {
			c02One(c, cs)
		}
	}
	for _, src := range corpus.Specials() {
		for _, v := range []*version.Version{drive.V74, drive.V72, drive.V56} {
			if !c.Next() {
				continue
			}
			c02One(c, mkCase(src, v, "special head/body/tail or literal form"))
		}
	}
	// multi-line regions (see C04): tokens that contain line terminators of every kind
	for _, tpl := range c04Regions {
		for _, r := range c04RegionTexts(3) {
			for _, v := range []*version.Version{drive.V74, drive.V56} {
				if c.Next() {
					c02One(c, mkCase(strings.Replace(tpl, "R", r, 1), v, "multi-line region with a mix of line terminators"))
				}
			}
		}
	}
	for _, src := range chainPrograms(c) {
		for _, v := range []*version.Version{drive.V74, drive.V56} {
			if c.Next() {
				c02One(c, mkCase(src, v, "postfix chain"))
			}
		}
	}
	// print-back through the command-line tool (-pb overwrites the user's files): every schedule of its goroutines
	cliExplore(c, "C02", [][]string{{"-pb"}, {"-pb", "-p", "-e"}}, []string{"7.4", "5.6"}, cliConfigs(c.Thorough(), false))
}

func itoa(i int) string { return strconv.Itoa(i) }

func init() {
	register(&core.Check{
		Prop: "C02", Level: "exploration", Exhaust: true, QuickSecs: 240, ThorSecs: 2400,
		Rule: "E-lr corpus of both grammars (one sentence per rule and per (rule, position, child rule); thorough: + nullable combinations, 3-paths and pairs of positions, all with every 1-deviation), written down by M-lex; each program in baseline layout under every version of its family, with a unique comment in every gap, with every single gap set to every trivia of the alphabet (1-deviation; thorough: pairs of neighbouring gaps), and with every token replaced by every alternative lexeme; plus hand-written heads × bodies × tails and literal forms under 7.4/7.2/5.6, plus multi-thousand-token programs under production pool blocks. " +
			"Oracle: zero reported errors ⇒ printer output == source bytes. non-trivial = parsed without error (round trip actually compared); distinct by (version, source text)",
		Assume: []string{"programs with reported errors are not judged here (C06/C07/C08 do)"},
		Run:    c02Run,
		Replay: withCLIReplay(replaySrc(c02One)),
	})
}
