package main

import (
	"bytes"
	"encoding/json"
	"fmt"
	"github.com/z7zmey/php-parser/pkg/token"
	"strings"

	"github.com/z7zmey/php-parser/pkg/ast"
	"github.com/z7zmey/php-parser/pkg/visitor/printer"
	"github.com/z7zmey/php-parser/verifmc/astx"
	"github.com/z7zmey/php-parser/verifmc/core"
	"github.com/z7zmey/php-parser/verifmc/slotm"
)

// C15 — E-slot exploration of the printer.
// Every kind × every assignment to its slots: token / child / value slot ∈ {absent, present}; a list with
// its separator list jointly ∈ {nil, (n items, k ≤ n separators)}; printer started in PHP and in HTML state.

type c15Case struct {
	Mode   string `json:"mode"`
	Kind   string `json:"kind"`
	Digits []int  `json:"digits"`
	HTML   bool   `json:"html_state"`
	Pre    string `json:"text_before_every_marker,omitempty"`
	Suf    string `json:"text_after_every_marker,omitempty"`
	FreeID int    `json:"id_of_free_floating_tokens,omitempty"`
}

type listOpt struct{ items, seps int }

func listOpts(thorough, paired bool) []listOpt {
	if !paired {
		return []listOpt{{-1, 0}, {1, 0}, {2, 0}}
	}
	if thorough {
		return []listOpt{{-1, 0}, {0, 0}, {1, 0}, {1, 1}, {2, 0}, {2, 1}, {2, 2}, {3, 0}, {3, 1}, {3, 2}, {3, 3}}
	}
	return []listOpt{{-1, 0}, {1, 0}, {1, 1}, {2, 1}, {2, 2}, {3, 0}, {3, 1}}
}

// c15Slots: the independent dimensions of a kind (separator lists ride on their list).
func c15Slots(fs []astx.Field) []int {
	var dims []int
	for i, f := range fs {
		switch f.Kind {
		case astx.FTok, astx.FNode, astx.FValue, astx.FNodes:
			dims = append(dims, i)
		case astx.FToks:
			if f.SepFor < 0 {
				dims = append(dims, i)
			}
		}
	}
	return dims
}

func c15Radix(fs []astx.Field, dims []int, thorough bool) []int {
	r := make([]int, len(dims))
	for k, i := range dims {
		switch fs[i].Kind {
		case astx.FNodes:
			r[k] = len(listOpts(thorough, fs[i].SepBy >= 0))
		case astx.FToks:
			r[k] = 3
		default:
			r[k] = 2
		}
	}
	return r
}

func c15Spec(fs []astx.Field, dims []int, digits []int, thorough bool) []astx.SlotSpec {
	spec := make([]astx.SlotSpec, len(fs))
	for k, i := range dims {
		d := digits[k]
		switch fs[i].Kind {
		case astx.FNodes:
			o := listOpts(thorough, fs[i].SepBy >= 0)[d]
			if o.items >= 0 {
				spec[i] = astx.SlotSpec{Present: true, Items: o.items}
				if fs[i].SepBy >= 0 && o.seps > 0 {
					spec[fs[i].SepBy] = astx.SlotSpec{Present: true, Items: o.seps}
				}
			}
		case astx.FToks:
			if d > 0 {
				spec[i] = astx.SlotSpec{Present: true, Items: d}
			}
		default:
			spec[i] = astx.SlotSpec{Present: d == 1}
		}
	}
	return spec
}

type seg struct {
	marker string // e.g. "T3.0"; "" for the trailing gap
	gap    string // text before the marker
}

func splitMarkers(out string) (segs []seg, ok bool) {
	for {
		i := strings.IndexByte(out, 1)
		if i < 0 {
			segs = append(segs, seg{"", out})
			return segs, !strings.ContainsRune(out, 2)
		}
		j := strings.IndexByte(out[i:], 2)
		if j < 0 {
			return nil, false
		}
		segs = append(segs, seg{out[i+1 : i+j], out[:i]})
		out = out[i+j+1:]
	}
}

// matchGap: gap consists of blanks and, in order, optionally the canonical lexeme of each absent slot.
func matchGap(g string, vs []*slotm.Vocab) bool {
	g = strings.TrimLeft(g, " ")
	if g == "" {
		return true
	}
	for j, v := range vs {
		if v == nil {
			return true // unconstrained slot: anything may stand here
		}
		for _, cn := range v.Canon {
			if len(g) >= len(cn) && (g[:len(cn)] == cn || (v.Keyword && strings.EqualFold(g[:len(cn)], cn))) {
				if matchGap(g[len(cn):], vs[j+1:]) {
					return true
				}
			}
		}
	}
	return false
}

func printNode(n ast.Vertex, html bool) (out string, pan interface{}) {
	defer func() {
		if r := recover(); r != nil {
			pan = r
		}
	}()
	b := &bytes.Buffer{}
	p := printer.NewPrinter(b)
	if !html {
		p = p.WithState(printer.PrinterStatePHP)
	}
	n.Accept(p)
	return b.String(), nil
}

type expPart struct {
	markers []string // adjacent markers (free-floating then token)
	field   int      // index into Fields
	isSep   bool
	opt     bool // value marker that may legitimately be omitted
}

func c15One(c *core.Ctx, cs c15Case, thorough bool) {
	mk := kindByName(cs.Kind)
	if mk == nil {
		return
	}
	_, fs := astx.Elem(mk())
	dims := c15Slots(fs)
	if len(cs.Digits) != len(dims) {
		return
	}
	spec := c15Spec(fs, dims, cs.Digits, thorough)
	astx.MarkerPre, astx.MarkerSuf, astx.FreeID = cs.Pre, cs.Suf, token.ID(cs.FreeID)
	b := astx.Build(mk, spec, nil)
	astx.MarkerPre, astx.MarkerSuf, astx.FreeID = "", "", 0
	out, pan := printNode(b.Node, cs.HTML)
	if cs.Pre != "" || cs.Suf != "" {
		astx.MarkerPre, astx.MarkerSuf = cs.Pre, cs.Suf
		out = astx.UnwrapMarkers(out)
		astx.MarkerPre, astx.MarkerSuf = "", ""
	}
	ctx := func() string {
		return fmt.Sprintf("%s slots %v html=%v → %q", cs.Kind, specString(fs, spec), cs.HTML, out)
	}
	if pan != nil {
		c.Report("print "+cs.Kind+": panic", fmt.Sprintf("%s slots %v: %v", cs.Kind, specString(fs, spec), pan), cs)
		return
	}
	// expected parts in print order
	var exp []expPart
	nTok, nTokPresent := 0, 0
	for i, f := range fs {
		if f.Kind == astx.FTok {
			nTok++
			if spec[i].Present {
				nTokPresent++
			}
		}
	}
	for i, f := range fs {
		if !spec[i].Present {
			continue
		}
		switch f.Kind {
		case astx.FTok:
			exp = append(exp, expPart{markers: []string{fmt.Sprintf("F%d.0", i), fmt.Sprintf("T%d.0", i)}, field: i})
		case astx.FToks:
			if f.SepFor >= 0 {
				continue
			}
			for j := 0; j < spec[i].Items; j++ {
				exp = append(exp, expPart{markers: []string{fmt.Sprintf("G%d.%d", i, j), fmt.Sprintf("S%d.%d", i, j)}, field: i})
			}
		case astx.FNode:
			exp = append(exp, expPart{markers: []string{fmt.Sprintf("N%d.0", i)}, field: i})
		case astx.FNodes:
			ns := 0
			if f.SepBy >= 0 && spec[f.SepBy].Present {
				ns = spec[f.SepBy].Items
			}
			for j := 0; j < spec[i].Items; j++ {
				exp = append(exp, expPart{markers: []string{fmt.Sprintf("L%d.%d", i, j)}, field: i})
				if j < ns {
					exp = append(exp, expPart{markers: []string{fmt.Sprintf("G%d.%d", f.SepBy, j), fmt.Sprintf("S%d.%d", f.SepBy, j)}, field: i, isSep: true})
				}
			}
		case astx.FValue:
			// the value stands in for the node's own token: printed iff that token is absent
			if nTokPresent == 0 {
				exp = append(exp, expPart{markers: []string{fmt.Sprintf("V%d.0", i)}, field: i})
			} else if nTokPresent < nTok {
				exp = append(exp, expPart{markers: []string{fmt.Sprintf("V%d.0", i)}, field: i, opt: true})
			}
		}
	}
	segs, ok := splitMarkers(out)
	if !ok {
		c.Report("print "+cs.Kind+": output contains a broken marker", ctx(), cs)
		return
	}
	got := map[string]int{}
	for _, s := range segs {
		if s.marker != "" {
			got[s.marker]++
		}
	}
	slotOf := func(m string) string {
		var i, j int
		fmt.Sscanf(m[1:], "%d.%d", &i, &j)
		if i < len(fs) {
			if m[0] == 'F' || m[0] == 'G' {
				return "free-floating of " + cs.Kind + "." + fs[i].Name
			}
			return cs.Kind + "." + fs[i].Name
		}
		return cs.Kind + ".?"
	}
	want := map[string]bool{}
	var flat []expPart
	for _, e := range exp {
		present := true
		for _, m := range e.markers {
			want[m] = true
			if got[m] == 0 {
				present = false
				if !e.opt {
					what := "token"
					switch m[0] {
					case 'F', 'G':
						what = "free-floating token"
					case 'N', 'L':
						what = "child"
					case 'V':
						what = "value"
					}
					c.Report(fmt.Sprintf("print: %s of %s not printed", what, slotOf(m)), ctx(), cs)
					return
				}
			}
			if got[m] > 1 {
				c.Report(fmt.Sprintf("print: %s printed %d times", slotOf(m), got[m]), ctx(), cs)
				return
			}
		}
		if present {
			flat = append(flat, e)
		}
	}
	for m := range got {
		if !want[m] {
			c.Report(fmt.Sprintf("print: %s printed although it must not be (value next to its token, or a separator without item)", slotOf(m)), ctx(), cs)
			return
		}
	}
	// order + adjacency
	var wantSeq []string
	for _, e := range flat {
		wantSeq = append(wantSeq, e.markers...)
	}
	k := 0
	for _, s := range segs {
		if s.marker == "" {
			continue
		}
		if s.marker != wantSeq[k] {
			c.Report(fmt.Sprintf("print: wrong order: %s printed where %s is expected", slotOf(s.marker), slotOf(wantSeq[k])), ctx(), cs)
			return
		}
		k++
	}
	// gaps
	absentBetween := func(lo, hi int, inList int) []*slotm.Vocab {
		var vs []*slotm.Vocab
		if inList >= 0 && fs[inList].SepBy >= 0 {
			vs = append(vs, slotm.Lookup(cs.Kind, fs[fs[inList].SepBy].Name))
		}
		for i := lo + 1; i < hi; i++ {
			if fs[i].Kind == astx.FTok && !spec[i].Present {
				v := slotm.Lookup(cs.Kind, fs[i].Name)
				if v == nil && !slotm.Free(fs[i].Name) {
					c.SetAdd("unconstrained_slots", cs.Kind+"."+fs[i].Name)
				}
				if v == nil && slotm.Free(fs[i].Name) {
					// a free-form token that is absent is replaced by the node's Value or by nothing
					continue
				}
				vs = append(vs, v)
			}
		}
		return vs
	}
	si := 0
	prevField := -1
	var prev *expPart
	for pi := 0; pi <= len(flat); pi++ {
		var cur *expPart
		hi := len(fs)
		if pi < len(flat) {
			cur = &flat[pi]
			hi = cur.field
		}
		// gap before the first marker of this part
		g := segs[si].gap
		if pi == 0 && cs.HTML {
			g = strings.TrimPrefix(g, "<?php ")
		}
		inList := -1
		mustSep := false
		lo := prevField
		if prev != nil && cur != nil && prev.field == cur.field && fs[cur.field].Kind == astx.FNodes {
			if !prev.isSep && !cur.isSep {
				inList = cur.field // two items without separator token between them
				mustSep = fs[cur.field].SepBy >= 0
			}
			lo, hi = 0, 0
		} else if prev != nil && fs[prev.field].Kind == astx.FNodes && !prev.isSep {
			// after the last item of a list: an absent trailing separator prints nothing or the separator
			inList = prev.field
		}
		vs := absentBetween(lo, hi, inList)
		if mustSep && len(vs) > 0 && vs[0] != nil && strings.TrimSpace(g) == "" {
			// "separators interleaved with list items": between two items the separator is not optional
			where := "before " + slotOf(cur.markers[0])
			c.Report(fmt.Sprintf("print %s: no separator between two items of a separated list (%s)", cs.Kind, fs[cur.field].Name), ctx()+" "+where, cs)
			return
		}
		if !matchGap(g, vs) {
			where := "at the end"
			if cur != nil {
				where = "before " + slotOf(cur.markers[0])
			}
			if prev != nil {
				where = "after " + slotOf(prev.markers[0]) + " " + where
			}
			c.Report(fmt.Sprintf("print %s: text %q %s is neither glue nor the canonical lexeme of an absent slot there", cs.Kind, clipS(g, 24), where), ctx(), cs)
			return
		}
		if cur == nil {
			break
		}
		// markers of one part are adjacent
		for m := 1; m < len(cur.markers); m++ {
			if segs[si+m].gap != "" {
				c.Report(fmt.Sprintf("print: text between the free-floating tokens and the token of %s", slotOf(cur.markers[m])), ctx(), cs)
				return
			}
		}
		si += len(cur.markers)
		prevField = cur.field
		prev = cur
	}
}

func clipS(s string, n int) string {
	if len(s) > n {
		return s[:n] + "…"
	}
	return s
}

func specString(fs []astx.Field, spec []astx.SlotSpec) string {
	var parts []string
	for i, f := range fs {
		if spec[i].Present {
			if f.Kind == astx.FNodes || f.Kind == astx.FToks {
				parts = append(parts, fmt.Sprintf("%s×%d", f.Name, spec[i].Items))
			} else if f.Kind != astx.FPos {
				parts = append(parts, f.Name)
			}
		}
	}
	return "[" + strings.Join(parts, " ") + "]"
}

var c15Extra func(c *core.Ctx)

func c15Run(c *core.Ctx) {
	for _, mk := range astx.Kinds {
		proto := mk()
		kn := astx.KindName(proto)
		_, fs := astx.Elem(proto)
		dims := c15Slots(fs)
		radix := c15Radix(fs, dims, c.Thorough())
		total := 1
		for _, r := range radix {
			total *= r
		}
		c.SetAdd("kinds", kn)
		c.Max("max_assignments_of_one_kind", int64(total))
		for idx := 0; idx < total; idx++ {
			for _, html := range []bool{false, true} {
				if !c.Next() {
					continue
				}
				digits := make([]int, len(dims))
				x := idx
				for k := range dims {
					digits[k] = x % radix[k]
					x /= radix[k]
				}
				cs := c15Case{Mode: "slot", Kind: kn, Digits: digits, HTML: html}
				c15One(c, cs, c.Thorough())
				c.P.States++
				if !html {
					// the same node with every token, value and child text ending like a close tag / starting like an open
					// tag: the printer decides from the text it writes whether it is inside PHP
					for _, w := range [][2]string{{"", "?>"}, {"", "?>\n"}, {"<?php ", ""}} {
						cw := cs
						cw.Pre, cw.Suf = w[0], w[1]
						c15One(c, cw, c.Thorough())
						c.Stat("prints_with_tag_like_texts", 1)
					}
					// … and with the free-floating tokens carrying each id a scanner gives them: what is printed must not
					// depend on it
					ids := []token.ID{token.T_OPEN_TAG, token.T_COMMENT}
					if c.Thorough() {
						ids = append(ids, token.T_DOC_COMMENT, token.T_INLINE_HTML, token.T_HALT_COMPILER, token.T_OPEN_TAG_WITH_ECHO)
					}
					for _, id := range ids {
						cw := cs
						cw.FreeID = int(id)
						c15One(c, cw, c.Thorough())
						c.Stat("prints_with_other_free_floating_ids", 1)
					}
				}
				if idx > 0 {
					c.NontrivialH(core.Hash(kn) ^ uint64(idx)*2654435761 ^ boolU(html))
				}
				c.Sample(cs)
			}
		}
	}
	if c15Extra != nil {
		c15Extra(c)
	}
}

func boolU(b bool) uint64 {
	if b {
		return 0x9e3779b97f4a7c15
	}
	return 0
}

func init() {
	register(&core.Check{
		Prop: "C15", Level: "exploration", Exhaust: true, QuickSecs: 200, ThorSecs: 1500,
		Rule: "E-slot: every node kind × every assignment to its slots (token / single child / value ∈ {absent,present}; list jointly with its separator list ∈ {nil,(items,separators)…}) × printer start state {PHP,HTML}; every slot carries a unique marker, tokens also a unique free-floating marker. " +
			"Oracle: each present marker exactly once, in declaration order with separators interleaved, free-floating directly before its token, a leaf's Value iff its own token is absent; the text between markers is blanks, the `<?php ` glue, or — in order — the canonical lexeme (slot vocabulary written from the PHP manual) of absent token slots declared there. " +
			"Subtree replacement: every node of every corpus tree replaced by a marker leaf must change only that subtree's portion of the output. non-trivial = at least one slot present; distinct by (kind, assignment, state) resp. (program, node)",
		Assume: []string{"slot vocabulary (mc/slotm) is partial: slots it does not know are reported under unconstrained_slots and not judged", "declaration order of pkg/ast fields is source order (validated on parsed trees)"},
		Run:    c15Run,
		Replay: func(c *core.Ctx, raw json.RawMessage) {
			var cs c15Case
			if json.Unmarshal(raw, &cs) == nil && cs.Mode == "slot" {
				c15One(c, cs, c.Thorough())
			} else if replayCorpus != nil {
				replayCorpus(c, raw)
			}
		},
	})
}
