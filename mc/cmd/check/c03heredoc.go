package main

import (
	"strings"

	"github.com/z7zmey/php-parser/pkg/ast"
	"github.com/z7zmey/php-parser/pkg/version"
	"github.com/z7zmey/php-parser/verifmc/astx"
	"github.com/z7zmey/php-parser/verifmc/core"
	"github.com/z7zmey/php-parser/verifmc/drive"
)

// E-heredoc: small-scope exploration of heredoc/nowdoc bodies against a reference model of where the
// closing label is (PHP manual: before 7.3 the label stands alone at the start of a line, followed only by
// an optional `;` and a line terminator; from 7.3 it may be indented and is closed by any character that
// cannot continue an identifier).

var hdFragments = []string{"A", "A1", "AB", "A_", "xA", " ", "\t", "\n", "\r\n", "\r", "x", ";", ")", ",", "$v", "{$v}", "\\"}

func isIdent(b byte) bool {
	return b == '_' || b >= '0' && b <= '9' || b >= 'a' && b <= 'z' || b >= 'A' && b <= 'Z' || b >= 0x80
}

// hdClose returns the offset in text (the bytes after the opener's line terminator) where the closing
// label `A` starts and ends, by the rules of the version; ok=false if the heredoc is not terminated.
func hdClose(text string, since73 bool) (start, end int, ok bool) {
	lineStart := true
	for i := 0; i < len(text); i++ {
		if lineStart {
			j := i
			if since73 {
				for j < len(text) && (text[j] == ' ' || text[j] == '\t') {
					j++
				}
			}
			if j < len(text) && text[j] == 'A' {
				k := j + 1
				if since73 {
					if k == len(text) || !isIdent(text[k]) {
						return j, k, true
					}
				} else {
					rest := text[k:]
					if strings.HasPrefix(rest, ";") {
						rest = rest[1:]
					}
					if strings.HasPrefix(rest, "\n") || strings.HasPrefix(rest, "\r") {
						return j, k, true
					}
				}
			}
		}
		lineStart = text[i] == '\n' || (text[i] == '\r' && !(i+1 < len(text) && text[i+1] == '\n'))
	}
	return 0, 0, false
}

type hdCase struct {
	srcCase
	Open   string `json:"opener"`
	Text   string `json:"text_after_opener"`
	Closer int    `json:"offset_of_the_intended_closing_label"`
}

func c03Heredoc(c *core.Ctx, cs hdCase) {
	setBlock(&cs.srcCase)
	v := parseVer(cs.Ver)
	since73 := v == nil || v.Major == 7 && v.Minor >= 3
	pre := "<?php $x = " + cs.Open
	text := cs.Text
	st, en, ok := hdClose(text, since73)
	res := drive.Parse(cs.Src, v, true)
	if !res.OK() {
		c.Stat("crashed_or_hung(C01 domain)", 1)
		return
	}
	c.P.Trans++
	c.NontrivialH(core.Hash(cs.Ver + string(cs.Src)))
	var hd *ast.ScalarHeredoc
	if res.Root != nil {
		for _, n := range astx.PreOrder(res.Root) {
			if h, is := n.(*ast.ScalarHeredoc); is && h != nil && h.Position != nil && h.Position.StartPos == len("<?php $x = ") {
				hd = h
				break
			}
		}
	}
	fam := famOf(v)
	grp := "7.3+"
	if !since73 {
		grp = "before 7.3"
	}
	if !ok {
		// cannot happen with the explicit closer appended by the generator; kept for replayed cases
		if res.NErr() == 0 {
			at := ""
			if strings.HasSuffix(text, "A;") {
				at = " [the closing label and `;` are the last bytes of the input]"
			}
			c.Report("an unterminated heredoc is accepted ("+fam+", "+grp+")"+at, mkWhat("%q under %s", cs.Src, cs.Ver), cs)
		}
		return
	}
	if since73 && strings.Trim(text[:st], " \t") == "" {
		// recorded, test-pinned defect: a closing label on the first line after the opener (empty body) on
		// 7.3+ loses its first byte
		c.Stat("empty_body_7.3+(recorded defect; not judged)", 1)
		return
	}
	wantEnd := len(pre) + en
	if st == cs.Closer {
		// no earlier line closes the heredoc: the program is the heredoc, `;`, and one more statement — valid
		c.Stat("valid_by_model", 1)
		if res.NErr() > 0 || hd == nil {
			c.Report("a valid heredoc is rejected ("+fam+", "+grp+")", mkWhat("%s in %q under %s; the closing label is at body offset %d", errList(res.Errs), cs.Src, cs.Ver, st), cs)
			return
		}
	} else {
		// an earlier line closes it by the rules of this version; what follows is arbitrary text, so the
		// program is judged only when the parser accepts it
		c.Stat("closed_early_by_model", 1)
		if res.NErr() > 0 || hd == nil {
			return
		}
	}
	if hd.Position.EndPos != wantEnd {
		c.Report("heredoc ends at another place than the closing label PHP prescribes ("+fam+", "+grp+")", mkWhat("node ends at %d, model: label at [%d,%d) in %q under %s", hd.Position.EndPos, len(pre)+st, wantEnd, cs.Src, cs.Ver), cs)
	}
	c.Stat("heredoc_spans_compared", 1)
}


func c03Heredocs(c *core.Ctx) {
	n := 3
	if c.Thorough() {
		n = 4
	}
	opens := []string{"<<<A\n", "<<<'A'\n", "<<<A\r\n"}
	vers := []*version.Version{drive.V74, drive.V72, drive.V56, drive.V(7, 3)}
	// the intended closer and the rest of the program, in each line-terminator style
	closers := []string{"\nA;\n$z;\n", "\nA\n;\n$z;\n", "\r\nA;\r\n$z;\r\n", "\r\nA\r\n;\r\n$z;\r\n"}
	var rec func(body string, k int)
	rec = func(body string, k int) {
		for _, o := range opens {
			for _, cl := range closers {
				if !c.Next() {
					continue
				}
				text := body + cl
				closer := len(body) + strings.Index(cl, "A")
				for _, v := range vers {
					cs := hdCase{srcCase: mkCase("<?php $x = "+o+text, v, "E-heredoc"), Open: o, Text: text, Closer: closer}
					c03Heredoc(c, cs)
					c.P.States++
				}
			}
		}
		if k == n {
			return
		}
		for _, f := range hdFragments {
			rec(body+f, k+1)
		}
	}
	rec("", 0)
	one := func(o, body, cl string) {
		if !c.Next() {
			return
		}
		text := body + cl
		closer := len(body) + strings.Index(cl, "A")
		for _, v := range vers {
			cs := hdCase{srcCase: mkCase("<?php $x = "+o+text, v, "E-heredoc"), Open: o, Text: text, Closer: closer}
			c03Heredoc(c, cs)
			c.P.States++
		}
	}
	// the bytes at the edges of the identifier classes directly behind a label at the start of a line (`A0` `Az` `A\x80`
	// continue the name, `A/` `A:` `A@` `A[` `` A` `` `A{` `A\x7f` do not), alone and next to every other fragment
	for _, b := range []string{"A0", "A9", "Aa", "Az", "AZ", "A\x80", "A\xff", "A\x7f", "A/", "A:", "A@", "A[", "A`", "A{"} {
		for _, o := range opens {
			for _, cl := range closers {
				one(o, b, cl)
				for _, f := range hdFragments {
					if !(f == "$v" && b == "A[") { // `$vA[` would open an array offset
						one(o, f+b, cl)
					}
					if !(strings.HasSuffix(b, "{") && strings.HasPrefix(f, "$")) { // `A{$v` would open a complex interpolation
						one(o, b+f, cl)
					}
				}
			}
		}
	}
	// the input ends with the closing label's line: `A;` at the very end, followed by a blank, or by a line terminator
	for _, cl := range []string{"\nA;", "\nA; ", "\nA;\t", "\nA;\n", "\nA;\r\n", "\r\nA;", "\nA;  ", "\n A;", "\nA ;"} {
		for _, o := range opens {
			one(o, "", cl)
			for _, f := range hdFragments {
				one(o, f, cl)
				for _, g := range hdFragments {
					one(o, f+g, cl)
				}
			}
		}
	}
}
