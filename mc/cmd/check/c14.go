package main

import (
	"encoding/json"
	"fmt"
	"sort"
	"strings"

	"github.com/z7zmey/php-parser/pkg/version"
	"github.com/z7zmey/php-parser/pkg/visitor/nsresolver"
	"github.com/z7zmey/php-parser/pkg/visitor/traverser"
	"github.com/z7zmey/php-parser/verifmc/astx"
	"github.com/z7zmey/php-parser/verifmc/core"
	"github.com/z7zmey/php-parser/verifmc/drive"
	"github.com/z7zmey/php-parser/verifmc/nsm"
)

// C14 — resolved names follow PHP's rules.

type c14Case struct {
	srcCase
	Exp    []nsm.Expect `json:"expect"`
	NSForm string       `json:"ns_form"`
	Import string       `json:"imports"`
	Pos    string       `json:"position"`
}

func nameShape(what string) string {
	f := strings.Fields(what)
	if len(f) < 2 {
		return what
	}
	n := f[1]
	switch {
	case strings.HasPrefix(n, `\`):
		return f[0] + " fully qualified"
	case strings.HasPrefix(strings.ToLower(n), `namespace\`):
		return f[0] + " namespace-relative"
	case strings.Contains(n, `\`):
		return f[0] + " qualified"
	}
	return f[0] + " unqualified"
}

func c14One(c *core.Ctx, cs c14Case) {
	setBlock(&cs.srcCase)
	v := parseVer(cs.Ver)
	res := drive.Parse(cs.Src, v, true)
	if !res.Clean() {
		c.Stat("program_not_valid_in_this_family(not judged)", 1)
		return
	}
	c.NontrivialH(core.Hash(cs.Ver + string(cs.Src)))
	c.P.Trans++
	r := nsresolver.NewNamespaceResolver()
	pan := func() (p interface{}) {
		defer func() { p = recover() }()
		traverser.NewTraverser(r).Traverse(res.Root)
		return nil
	}()
	if pan != nil {
		c.Report("resolver panics: "+drive.PanicMsg(pan), mkWhat("%q", cs.Src), cs)
		return
	}
	type got struct{ fqn, kind string }
	byOff := map[int][]got{}
	for node, fq := range r.ResolvedNames {
		off := -1
		if p := node.GetPosition(); p != nil {
			off = p.StartPos
		}
		byOff[off] = append(byOff[off], got{fq, astx.KindName(node)})
	}
	fam := famOf(v)
	expOff := map[int]bool{}
	for _, e := range cs.Exp {
		expOff[e.Off] = true
		gs := byOff[e.Off]
		if e.Special {
			for _, g := range gs {
				if strings.ToLower(g.fqn) != e.FQN {
					c.Report("special name qualified ("+fam+"): "+nameShape(e.What)+" in position "+cs.Pos, mkWhat("%s -> %q in %q", e.What, g.fqn, cs.Src), cs)
				}
			}
			continue
		}
		if len(gs) == 0 {
			c.Report("name not resolved ("+fam+"): "+strings.Fields(e.What)[0]+" in position "+cs.Pos, mkWhat("%s at %d should be %q in %q", e.What, e.Off, e.FQN, cs.Src), cs)
			continue
		}
		for _, g := range gs {
			if g.fqn != e.FQN {
				c.Report("name resolved wrongly ("+fam+"): "+nameShape(e.What)+", imports "+importShape(cs.Import)+", "+nsShape(cs.NSForm), mkWhat("%s -> %q, should be %q in %q", e.What, g.fqn, e.FQN, cs.Src), cs)
			}
		}
		c.Stat("names_compared", 1)
	}
	var offs []int
	for off := range byOff {
		offs = append(offs, off)
	}
	sort.Ints(offs)
	for _, off := range offs {
		if !expOff[off] {
			for _, g := range byOff[off] {
				c.Report("resolver maps something PHP does not resolve ("+fam+"): "+g.kind+" in position "+cs.Pos, mkWhat("%q at %d in %q", g.fqn, off, cs.Src), cs)
			}
		}
	}
}

func importShape(s string) string {
	if s == "" {
		return "none"
	}
	// keep the kind and form of each import, drop nothing else: imports are part of the model's alphabet
	return "`" + s + "`"
}

func nsShape(s string) string { return "namespace form `" + s + "`" }

func c14Run(c *core.Ctx) {
	for _, v := range []*version.Version{drive.V74, drive.V56} {
		for _, nf := range nsm.NSForms {
			var impSets [][]nsm.Import
			all := append(append([]nsm.Import{}, nsm.Imports...), nsm.ImportVariants...)
			for _, i := range all {
				impSets = append(impSets, []nsm.Import{i})
			}
			{
				pairOf := nsm.Imports
				if c.Thorough() {
					pairOf = all // quick: pairs of the basic forms, the spelling variants alone
				}
				for i, a := range pairOf {
					for j, b := range pairOf {
						if i != j && a.Text != "" && b.Text != "" && !clash(a, b) {
							impSets = append(impSets, []nsm.Import{a, b})
						}
					}
				}
			}
			for _, imps := range impSets {
				for _, pos := range nsm.Positions {
					names := nsm.Names
					if pos.Kind == "" {
						names = []string{""}
					}
					for _, nm := range names {
						if pos.Kind != "" && !nsm.ValidFor(pos, nm) {
							continue
						}
						if !c.Next() {
							continue
						}
						p := &nsm.Prog{}
						p.W("<?php ")
						nf.Emit(p, imps, func() { pos.Emit(p, nm) })
						var it []string
						for _, i := range imps {
							if i.Text != "" {
								it = append(it, i.Text)
							}
						}
						cs := c14Case{srcCase: mkCase(p.B.String(), v, "M-ns program"), Exp: p.Exp, NSForm: nf.Name, Import: strings.Join(it, " "), Pos: pos.Name}
						c14One(c, cs)
						c.P.States++
						c.Sample(cs)
					}
				}
			}
		}
	}
	// two references in one program: the second must not be influenced by the first
	for _, v := range []*version.Version{drive.V74} {
		for _, imp := range nsm.Imports {
			for _, a := range []string{"Foo", `Foo\Bar`, `\Foo`, "Bar"} {
				for _, b := range []string{"Foo", "foo", `namespace\Foo`, "W"} {
					if !c.Next() {
						continue
					}
					p := &nsm.Prog{}
					p.W("<?php ")
					nsm.NSForms[1].Emit(p, []nsm.Import{imp}, func() {
						p.W("new ")
						p.Ref(a, "class")
						p.W("; ")
						p.Ref(b, "function")
						p.W("(); echo ")
						p.Ref(b, "const")
						p.W("; ")
						p.Ref(a, "class")
						p.W("::f();")
					})
					cs := c14Case{srcCase: mkCase(p.B.String(), v, "M-ns program, several references"), Exp: p.Exp, NSForm: nsm.NSForms[1].Name, Import: imp.Text, Pos: "four references of three kinds"}
					c14One(c, cs)
					c.P.States++
				}
			}
		}
	}
	// the names as the command-line tool prints them (-r): each file's names under that file's path, whatever the
	// order in which the files reach the printer goroutine (nothing of one file's namespace may survive into the next)
	cliExplore(c, "C14", [][]string{{"-p", "-r"}}, []string{"7.4", "5.6"}, cliConfigs(c.Thorough(), false))
}

// clash: two imports defining the same alias of the same kind cannot stand together in PHP.
func clash(a, b nsm.Import) bool {
	sa, sb := nsm.NewScope(""), nsm.NewScope("")
	a.Add(sa)
	b.Add(sb)
	for k := range sa.Class {
		if _, ok := sb.Class[k]; ok {
			return true
		}
	}
	for k := range sa.Fn {
		if _, ok := sb.Fn[k]; ok {
			return true
		}
	}
	for k := range sa.Const {
		if _, ok := sb.Const[k]; ok {
			return true
		}
	}
	return false
}

func init() {
	register(&core.Check{
		Prop: "C14", Level: "model_checking", Exhaust: true, QuickSecs: 300, ThorSecs: 2400,
		Rule: "every program of the M-ns generator: 9 namespace forms (none, `namespace A;`, `namespace A\\B;`, imports left behind in an earlier namespace, braced, braced global, two braced, after a declaration) x 18 import sets (class/function/const, aliases in other letter case, leading backslash, group use plain/aliased/mixed, combined lists, and all compatible ordered pairs of them) x 40 reference positions (extends, implements, interface extends, new, anonymous class, static call/property/constant, instanceof, catch, multi-catch, parameter/nullable/return/property types in functions, methods, interfaces, traits, closures, static closures, arrow functions, trait use, insteadof, trait alias, function call, constant fetch, nested scopes, all declaration kinds) x 35 names (unqualified in three letter cases, qualified, fully qualified, namespace-relative, self/parent/static, scalar type names, true/false/null in several cases), under 7.4 and 5.6; plus programs with four references of three kinds. " +
			"Oracle: the reference resolver (mc/nsm: the manual's rules) gives node -> FQN with nodes identified by start offset; ResolvedNames must contain exactly these entries (missing, wrong and extra entries are violations; special names may be absent or map to themselves). states = model programs, transitions = programs replayed on the real parser+resolver. non-trivial = program valid in the family; distinct by (version, source)",
		Assume: []string{"programs the family's parser rejects (PHP 7 syntax under 5.6) are skipped, counted"},
		Run:    c14Run,
		Replay: func(c *core.Ctx, raw json.RawMessage) {
			if cliReplay(c, raw) {
				return
			}
			var cs c14Case
			if json.Unmarshal(raw, &cs) == nil && cs.Mode == "src" {
				c14One(c, cs)
			}
		},
	})
	_ = fmt.Sprint
}

// forNSPrograms enumerates the single-import M-ns programs (no pairs); used by C13 as resolver-heavy trees.
func forNSPrograms(fn func(src string, v *version.Version)) {
	for _, v := range []*version.Version{drive.V74, drive.V56} {
		for _, nf := range nsm.NSForms {
			for _, imp := range nsm.Imports {
				for _, pos := range nsm.Positions {
					names := nsm.Names
					if pos.Kind == "" {
						names = []string{""}
					}
					for _, nm := range names {
						if pos.Kind != "" && !nsm.ValidFor(pos, nm) {
							continue
						}
						p := &nsm.Prog{}
						p.W("<?php ")
						nf.Emit(p, []nsm.Import{imp}, func() { pos.Emit(p, nm) })
						fn(p.B.String(), v)
					}
				}
			}
		}
	}
}
