package main

import (
	"encoding/json"
	"fmt"

	"github.com/z7zmey/php-parser/pkg/ast"
	"github.com/z7zmey/php-parser/pkg/version"
	"github.com/z7zmey/php-parser/pkg/visitor/traverser"
	"github.com/z7zmey/php-parser/verifmc/astx"
	"github.com/z7zmey/php-parser/verifmc/core"
	"github.com/z7zmey/php-parser/verifmc/corpus"
	"github.com/z7zmey/php-parser/verifmc/drive"
	"github.com/z7zmey/php-parser/verifmc/oracle"
)

// C12, part C: every tree the real parser returns for the widest corpus (with and without errors) —
// traversal == reflection pre-order, no node object reachable along two paths, and (error-free trees)
// the parts of every node, taken in declaration/print order, have increasing source offsets, which is
// what binds "field order" to "source order".

type c12SrcCase struct {
	Mode string `json:"mode"` // "C"
	srcCase
}

func c12Tree(c *core.Ctx, cs srcCase) {
	setBlock(&cs)
	res := drive.Parse(cs.Src, parseVer(cs.Ver), true)
	if res.OK() && res.Root == nil && res.TypedNil != nil {
		// "no tree" handed back as a non-nil interface around a nil node: a caller's `root != nil` test passes, and
		// traversing it hands the visitor something that is not a tree (or panics)
		rc := c12SrcCase{"C", cs}
		rc.srcCase.Mode = "C"
		got, pan := 0, interface{}(nil)
		func() {
			defer func() { pan = recover() }()
			traverser.NewTraverser(&astx.FuncVisitor{F: func(ast.Vertex) { got++ }}).Traverse(res.TypedNil)
		}()
		if got > 0 || pan != nil {
			c.Report("Parse returns a non-nil Vertex that holds a nil node: traversing it hands the visitor a node that is not in any tree", mkWhat("%q: %d callbacks, panic=%v", cs.Src, got, pan), rc)
		}
		return
	}
	if !res.OK() || res.Root == nil {
		c.Stat("no_tree(not judged)", 1)
		return
	}
	c.Stat("parsed_trees", 1)
	c.Nontrivial("C/" + cs.Ver + string(cs.Src))
	rc := c12SrcCase{"C", cs}
	rc.srcCase.Mode = "C"
	compareTraversal(c, res.Root, rc, fmt.Sprintf("parsed %q", cs.Src))
	if k := oracle.NoSharing(res.Root); k != "" {
		c.Report("parsed tree: a "+k+" node is reachable along two paths", mkWhat("%q", cs.Src), rc)
	}
	if res.NErr() > 0 {
		return
	}
	// children of every node in increasing start offset (source order)
	for _, n := range astx.PreOrder(res.Root) {
		prev, prevField := -1, ""
		for _, p := range astx.Parts(n) {
			st := -1
			if p.Node != nil {
				if pos := p.Node.GetPosition(); pos != nil {
					st = pos.StartPos
				}
			}
			if st < 0 {
				continue
			}
			if st < prev {
				c.Report("parsed tree: children of "+astx.KindName(n)+" are not in source order ("+prevField+" before "+p.Field+")", mkWhat("%q", cs.Src), rc)
				break
			}
			prev, prevField = st, p.Field
		}
	}
}

func init() {
	c12Extra = func(c *core.Ctx) {
		for _, fam := range []string{"php7", "php5"} {
			f := corpus.MustFam(fam)
			wideItems(f, false, func(it *corpus.Item, src, why string) {
				if c.Next() {
					c12Tree(c, mkCase(src, f.V, why))
				}
			})
			// every token-prefix of the rule-level programs: parses that recover, and parses that are given up (no tree)
			for _, it := range validItems(f, 1) {
				for _, t := range it.RealToks {
					if t.Position != nil && t.Position.EndPos < len(it.Src) && c.Next() {
						c12Tree(c, mkCase(it.Src[:t.Position.EndPos], f.V, "truncated corpus program"))
					}
				}
			}
			// E-pairs: a value left on the yacc stack by an earlier statement and picked up by a later one puts the
			// same node object into two places of the tree
			lp := 1
			if c.Thorough() {
				lp = 2
			}
			forPairs(c, f, lp, 1, func(p, s *corpus.Item, src string) {
				c12Tree(c, mkCase(src, f.V, "pair of corpus programs"))
			})
		}
		for _, src := range chainPrograms(c) {
			for _, v := range []*version.Version{drive.V74, drive.V56} {
				if c.Next() {
					c12Tree(c, mkCase(src, v, "postfix chain"))
				}
			}
		}
		for _, cs := range deepCases(c) {
			if c.Next() {
				c12Tree(c, cs)
			}
		}
		for _, src := range corpus.Specials() {
			if c.Next() {
				c12Tree(c, mkCase(src, drive.V74, "special"))
			}
		}
	}
	replayCorpus = func(c *core.Ctx, raw json.RawMessage) {
		var cs c12SrcCase
		if json.Unmarshal(raw, &cs) == nil && cs.Mode == "C" {
			c12Tree(c, cs.srcCase)
		}
	}
	_ = ast.Root{}
}
