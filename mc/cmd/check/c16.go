package main

import (
	"encoding/json"
	"fmt"
	"reflect"

	"github.com/z7zmey/php-parser/pkg/ast"
	"github.com/z7zmey/php-parser/pkg/position"
	"github.com/z7zmey/php-parser/pkg/token"
	"github.com/z7zmey/php-parser/verifmc/astx"
	"github.com/z7zmey/php-parser/verifmc/core"
	"github.com/z7zmey/php-parser/verifmc/dumpm"
)

// C16 — E-slot exploration of the dumper: every kind × every assignment to all of its fields × the four
// option combinations; the dump is read back with go/parser and compared with a reflection walk.

type c16Case struct {
	Mode   string `json:"mode"`
	Kind   string `json:"kind"`
	Digits []int  `json:"digits"`
}

func c16Radix(fs []astx.Field, thorough bool) []int {
	r := make([]int, len(fs))
	for i, f := range fs {
		switch f.Kind {
		case astx.FToks, astx.FNodes, astx.FValue:
			r[i] = 2
			if thorough {
				r[i] = 3 // nil, filled, empty-non-nil
			}
		case astx.FOther:
			r[i] = 1
		default:
			r[i] = 2
		}
	}
	return r
}

func c16Build(mk func() ast.Vertex, fs []astx.Field, digits []int) ast.Vertex {
	n := mk()
	v := reflect.ValueOf(n).Elem()
	for i, f := range fs {
		d := digits[i]
		if d == 0 {
			continue
		}
		fv := v.Field(f.Idx)
		switch f.Kind {
		case astx.FPos:
			// the end of an empty statement list is recorded as -1/-1: the numbers of a position are signed
			fv.Set(reflect.ValueOf(&position.Position{StartLine: i + 1, EndLine: -1, StartPos: i + 3, EndPos: -1}))
		case astx.FTok:
			fv.Set(reflect.ValueOf(&token.Token{ID: token.T_STRING + token.ID(i), Value: []byte(fmt.Sprintf("t%d\"\n\\%%d%%%%`", i)),
				Position:     &position.Position{StartLine: 1, EndLine: 1, StartPos: i, EndPos: i + 1},
				FreeFloating: []*token.Token{{ID: token.T_WHITESPACE, Value: []byte(" ")}, {ID: token.ID('#'), Value: []byte{}}, {ID: token.T_COMMENT, Value: []byte("/*`*/"), Position: &position.Position{StartLine: -1, EndLine: -1, StartPos: -1, EndPos: -1}}}}))
		case astx.FToks:
			if d == 1 {
				fv.Set(reflect.ValueOf([]*token.Token{{ID: token.ID(','), Value: []byte(",")}, {Value: []byte("x")}, {ID: token.ID(20000 + i)}}))
			} else {
				fv.Set(reflect.ValueOf([]*token.Token{}))
			}
		case astx.FNode:
			var c ast.Vertex = &ast.Identifier{Value: []byte(fmt.Sprintf("n%d", i))}
			fv.Set(reflect.ValueOf(&c).Elem())
		case astx.FNodes:
			if d == 1 {
				fv.Set(reflect.ValueOf([]ast.Vertex{&ast.Identifier{Value: []byte("l1")}, &ast.StmtNop{}, &ast.ScalarLnumber{Value: []byte("7"), Position: &position.Position{StartLine: 9}}}))
			} else {
				fv.Set(reflect.ValueOf([]ast.Vertex{}))
			}
		case astx.FValue:
			if d == 1 {
				fv.SetBytes([]byte(fmt.Sprintf("v%d\x00\xff\"%%s%%%%%%", i)))
			} else {
				fv.SetBytes([]byte{})
			}
		}
	}
	return n
}

func c16One(c *core.Ctx, cs c16Case) {
	mk := kindByName(cs.Kind)
	if mk == nil {
		return
	}
	_, fs := astx.Elem(mk())
	if len(cs.Digits) != len(fs) {
		return
	}
	n := c16Build(mk, fs, cs.Digits)
	for opt := 0; opt < 4; opt++ {
		wt, wp := opt&1 != 0, opt&2 != 0
		if class, detail := dumpm.Check(n, wt, wp); class != "" {
			c.Report("dump: "+class, fmt.Sprintf("%s fields %v tokens=%v positions=%v: %s", cs.Kind, c16Spec(fs, cs.Digits), wt, wp, detail), cs)
			return
		}
		c.Stat("dumps_read_back_with_go_parser", 1)
	}
}

func c16Spec(fs []astx.Field, digits []int) []string {
	var out []string
	for i, f := range fs {
		if digits[i] == 1 {
			out = append(out, f.Name)
		} else if digits[i] == 2 {
			out = append(out, f.Name+"(empty)")
		}
	}
	return out
}

var c16Extra func(c *core.Ctx)

func init() {
	register(&core.Check{
		Prop: "C16", Level: "exploration", Exhaust: true, QuickSecs: 200, ThorSecs: 1500,
		Rule: "E-slot: every node kind × every assignment {nil, filled} (thorough: lists and values also empty-but-non-nil) to every field incl. position and value × the 4 WithTokens/WithPositions combinations; plus every tree of the generated corpus of both grammars. " +
			"Oracle: `[]interface{}{<dump>}` parses with go/parser into exactly one literal; walked next to a reflection walk of the tree: type name, exactly the non-empty fields as keys (Value under Val; tokens/positions only when requested), each once, equal contents (token id by name, unquoted bytes, four position ints, nested literals). " +
			"non-trivial = at least one field set; distinct by (kind, assignment) resp. program text",
		Assume: []string{"go/parser and strconv.Unquote are the reference reading of Go syntax"},
		Run: func(c *core.Ctx) {
			for _, mk := range astx.Kinds {
				proto := mk()
				kn := astx.KindName(proto)
				_, fs := astx.Elem(proto)
				radix := c16Radix(fs, c.Thorough())
				total := 1
				for _, r := range radix {
					total *= r
				}
				c.SetAdd("kinds", kn)
				for idx := 0; idx < total; idx++ {
					if !c.Next() {
						continue
					}
					digits := make([]int, len(fs))
					x := idx
					for k := range fs {
						digits[k] = x % radix[k]
						x /= radix[k]
					}
					cs := c16Case{Mode: "slot", Kind: kn, Digits: digits}
					c16One(c, cs)
					c.P.States++
					if idx > 0 {
						c.NontrivialH(core.Hash(kn) ^ uint64(idx)*2654435761)
					}
					c.Sample(cs)
				}
			}
			if c16Extra != nil {
				c16Extra(c)
			}
			// the dump as the command-line tool delivers it (-d): every schedule of the tool's goroutines
			cliExplore(c, "C16", [][]string{{"-d"}, {"-d", "-p", "-e", "-r"}}, []string{"7.4", "5.6"}, cliConfigs(c.Thorough(), false))
		},
		Replay: func(c *core.Ctx, raw json.RawMessage) {
			if cliReplay(c, raw) {
				return
			}
			var cs c16Case
			if json.Unmarshal(raw, &cs) == nil && cs.Mode == "slot" {
				c16One(c, cs)
			} else if replayCorpus != nil {
				replayCorpus(c, raw)
			}
		},
	})
}
