// Package oracle: the generic per-tree oracles (tokens C04, positions C05, round trip C02).
package oracle

import (
	"bytes"
	"fmt"
	"reflect"

	"github.com/z7zmey/php-parser/pkg/ast"
	"github.com/z7zmey/php-parser/pkg/position"
	"github.com/z7zmey/php-parser/pkg/token"
	"github.com/z7zmey/php-parser/pkg/visitor/printer"
	"github.com/z7zmey/php-parser/verifmc/astx"
	"github.com/z7zmey/php-parser/verifmc/lexm"
)

// V is one violation: Key = oracle + locus (no offsets, no input text), What = the details.
type V struct{ Key, What string }

func tokID(t *token.Token) string { return lexm.TokName(t.ID) }

func q(src []byte) string {
	if len(src) > 160 {
		return fmt.Sprintf("%q…", src[:160])
	}
	return fmt.Sprintf("%q", src)
}

// Tokens — C04. clean = the parse reported no error (tiling, classification and leaf values are then due).
func Tokens(src []byte, root ast.Vertex, clean bool) (vs []V) {
	lt := lexm.NewLineTable(src)
	toks := astx.Tokens(root)
	prevEnd := 0
	add := func(key, what string) { vs = append(vs, V{key, what + " in " + q(src)}) }
	for i, tr := range toks {
		t := tr.Tok
		loc := astx.KindName(tr.Owner) + "." + tr.Field + emptyHeredoc(tr.Owner)
		kind := "token"
		kloc := loc
		if tr.Free {
			kind = "free-floating token"
			kloc = "any node" // the owner of a trivia token says nothing about the defect
		}
		p := t.Position
		if p == nil {
			if len(t.Value) != 0 {
				add(fmt.Sprintf("%s %s of %s has text but no position", kind, tokID(t), kloc), fmt.Sprintf("%q", t.Value))
			}
			continue
		}
		if p.StartPos < 0 || p.EndPos > len(src) || p.StartPos > p.EndPos {
			add(fmt.Sprintf("%s %s of %s: offsets out of range", kind, tokID(t), kloc), fmt.Sprintf("[%d,%d) of %d", p.StartPos, p.EndPos, len(src)))
			continue
		}
		if !bytes.Equal(t.Value, src[p.StartPos:p.EndPos]) && !(len(t.Value) == 0 && p.StartPos == p.EndPos) {
			add(fmt.Sprintf("%s %s of %s: text differs from the source at its offsets", kind, tokID(t), kloc), fmt.Sprintf("value %q, source[%d:%d] %q", t.Value, p.StartPos, p.EndPos, src[p.StartPos:p.EndPos]))
		}
		if p.EndPos > p.StartPos || len(src) > 0 {
			if want := lt.Line(p.StartPos); p.StartLine != want && p.StartPos < len(src) {
				add(fmt.Sprintf("%s %s: wrong start line", kind, tokID(t)), fmt.Sprintf("%s %q at %d: StartLine %d, reference %d", loc, t.Value, p.StartPos, p.StartLine, want))
			}
		}
		if p.EndPos > p.StartPos {
			if want := lt.Line(p.EndPos - 1); p.EndLine != want {
				add(fmt.Sprintf("%s %s: wrong end line", kind, tokID(t)), fmt.Sprintf("%s %q ending at %d: EndLine %d, reference %d", loc, t.Value, p.EndPos, p.EndLine, want))
			}
		}
		if p.StartPos < prevEnd {
			add(fmt.Sprintf("%s %s of %s overlaps or precedes the previous token (print order)", kind, tokID(t), kloc), fmt.Sprintf("starts at %d, previous token ended at %d", p.StartPos, prevEnd))
		} else if clean && p.StartPos > prevEnd {
			add(fmt.Sprintf("gap before %s %s of %s: source bytes not covered by any token", kind, tokID(t), kloc), fmt.Sprintf("%q at [%d,%d)", src[prevEnd:p.StartPos], prevEnd, p.StartPos))
		}
		if p.EndPos > prevEnd {
			prevEnd = p.EndPos
		}
		if clean && tr.Free && t.ID != token.T_HALT_COMPILER { // what follows __halt_compiler(); is data, whatever it looks like
			cls := lexm.Classify(t.Value)
			switch cls {
			case lexm.Whitespace:
				if t.ID != token.T_WHITESPACE {
					add("whitespace run classified as "+tokID(t), fmt.Sprintf("%q of %s", t.Value, loc))
				}
			case lexm.Comment:
				if t.ID != token.T_COMMENT {
					shape := ""
					if bytes.HasPrefix(t.Value, []byte("/**")) {
						shape = " (`/**` not followed by whitespace)"
					}
					add("comment classified as "+tokID(t)+shape, fmt.Sprintf("%q of %s", t.Value, loc))
				}
			case lexm.DocComment:
				if t.ID != token.T_DOC_COMMENT {
					add("doc-comment classified as "+tokID(t), fmt.Sprintf("%q of %s", t.Value, loc))
				}
			default:
				if t.ID == token.T_WHITESPACE || t.ID == token.T_COMMENT || t.ID == token.T_DOC_COMMENT {
					add("non-trivia text classified as "+tokID(t), fmt.Sprintf("%q of %s", t.Value, loc))
				}
			}
			// a trivia run hangs on the next significant token: the owner follows in the list
			if i+1 >= len(toks) {
				add("free-floating token without a following owner", loc)
			}
		}
	}
	if clean && prevEnd != len(src) {
		add("tail of the source not covered by any token", fmt.Sprintf("%q", src[prevEnd:]))
	}
	if clean {
		// leaf values
		for _, n := range astx.PreOrder(root) {
			v, fs := astx.Elem(n)
			var val []byte
			hasVal := false
			var text []byte
			nt := 0
			for _, f := range fs {
				switch f.Kind {
				case astx.FValue:
					val = v.Field(f.Idx).Bytes()
					hasVal = true
				case astx.FTok:
					if tk := v.Field(f.Idx).Interface().(*token.Token); tk != nil {
						text = append(text, tk.Value...)
						nt++
					}
				}
			}
			if hasVal && nt > 0 && !bytes.Equal(val, text) {
				add("leaf "+astx.KindName(n)+": Value differs from its token text", fmt.Sprintf("Value %q, token text %q", val, text))
			}
		}
	}
	return vs
}

// emptyHeredoc marks the locus "heredoc without a body" (a recorded, test-pinned scanner defect on 7.3+).
func emptyHeredoc(n ast.Vertex) string {
	if h, ok := n.(*ast.ScalarHeredoc); ok && h != nil && len(h.Parts) == 0 {
		return " of a heredoc without body"
	}
	return ""
}

// RoundTrip — C02.
func RoundTrip(src []byte, root ast.Vertex) (vs []V) {
	out, pan := Print(root)
	if pan != nil {
		return []V{{"printer panics on a parsed tree: " + fmt.Sprint(pan), q(src)}}
	}
	if bytes.Equal(out, src) {
		return nil
	}
	i := 0
	for i < len(out) && i < len(src) && out[i] == src[i] {
		i++
	}
	// locus: the node and slot owning the first token that starts at or after the first difference
	loc := "end of output"
	for _, tr := range astx.Tokens(root) {
		if tr.Tok.Position != nil && tr.Tok.Position.EndPos > i {
			loc = astx.KindName(tr.Owner) + "." + tr.Field + emptyHeredoc(tr.Owner)
			if tr.Free {
				loc = "free-floating " + tokID(tr.Tok)
				if tr.Tok.Position.StartPos == 0 {
					loc += " at the start of the file"
				}
			}
			break
		}
	}
	lo := i - 12
	if lo < 0 {
		lo = 0
	}
	hs, ho := i+16, i+16
	if hs > len(src) {
		hs = len(src)
	}
	if ho > len(out) {
		ho = len(out)
	}
	return []V{{"printed bytes differ from the source at " + loc, fmt.Sprintf("source …%q… printed …%q… (first difference at offset %d) in %s", src[lo:hs], out[lo:ho], i, q(src))}}
}

func Print(root ast.Vertex) (out []byte, pan interface{}) {
	defer func() {
		if r := recover(); r != nil {
			pan = r
		}
	}()
	b := &bytes.Buffer{}
	root.Accept(printer.NewPrinter(b))
	return b.Bytes(), nil
}

// ---------------------------------------------------------------------------------------------
// Positions — C05

type span struct {
	s, e   int // [s,e) of own tokens, s > e: no tokens
	sl, el int
	firstEmpty, lastEmpty bool // the subtree starts / ends with an empty statement list
	ok     bool // the node's own recorded position agrees with span (used for blame-innermost)
}

func hasSpan(s span) bool { return s.s <= s.e && s.e >= 0 && s.s < 1<<29 }

// Positions checks every node of an error-free tree.
func Positions(src []byte, root ast.Vertex, fam string) (vs []V) {
	lt := lexm.NewLineTable(src)
	var walk func(n ast.Vertex, path string) span
	walk = func(n ast.Vertex, path string) span {
		k := astx.KindName(n)
		sp := span{s: 1 << 30, e: -1}
		type part struct {
			sp    span
			empty bool // an empty statement list / a child without any token
			node  bool
			fidx  int
		}
		v, fs := astx.Elem(n)
		fidx := map[string]int{}
		for i, f := range fs {
			fidx[f.Name] = i
			if f.Kind == astx.FToks && f.SepFor >= 0 {
				fidx[f.Name] = f.SepFor // separators sit inside their list
			}
		}
		var parts []part
		addEmptyListsUpTo := func(limit int, from *int) {
			for ; *from < limit; *from++ {
				f := fs[*from]
				if f.Kind == astx.FNodes && f.Name == "Stmts" && v.Field(f.Idx).Len() == 0 {
					parts = append(parts, part{empty: true, fidx: *from, sp: span{s: 1 << 30, e: -1}})
				}
			}
		}
		next := 0
		for _, p := range astx.Parts(n) {
			fi := fidx[p.Field]
			addEmptyListsUpTo(fi, &next)
			if p.Tok != nil {
				if k == "Root" && p.Field == "EndTkn" {
					continue // the root excludes trailing trivia and the end marker
				}
				if (k == "StmtTraitUseAlias" || k == "StmtTraitUsePrecedence") && p.Field == "SemiColonTkn" {
					continue // a trait adaptation excludes its terminating semicolon
				}
				if p.Tok.Position == nil {
					continue
				}
				tp := p.Tok.Position
				parts = append(parts, part{sp: span{s: tp.StartPos, e: tp.EndPos, sl: tp.StartLine, el: tp.EndLine, ok: true}, fidx: fi})
			} else {
				cs := walk(p.Node, k+"."+p.Field)
				parts = append(parts, part{sp: cs, node: true, fidx: fi, empty: !hasSpan(cs)})
			}
		}
		addEmptyListsUpTo(len(fs), &next)
		var first, last *part
		for i := range parts {
			if hasSpan(parts[i].sp) {
				if first == nil {
					first = &parts[i]
					for j := 0; j < i; j++ {
						if parts[j].empty {
							sp.firstEmpty = true
						}
					}
				}
				last = &parts[i]
				if parts[i].sp.s < sp.s {
					sp.s, sp.sl = parts[i].sp.s, parts[i].sp.sl
				}
				if parts[i].sp.e > sp.e {
					sp.e, sp.el = parts[i].sp.e, parts[i].sp.el
				}
			}
		}
		if last != nil {
			for i := len(parts) - 1; i >= 0 && &parts[i] != last; i-- {
				if parts[i].empty {
					sp.lastEmpty = true
				}
			}
			if last.node && last.sp.lastEmpty {
				sp.lastEmpty = true
			}
			if first.node && first.sp.firstEmpty {
				sp.firstEmpty = true
			}
		}
		pos := n.GetPosition()
		add := func(key, what string) { vs = append(vs, V{key, what + " in " + q(src)}) }
		where := fmt.Sprintf("%s %s in %s", fam, k, path)
		if path == "" {
			where = fmt.Sprintf("%s %s", fam, k)
		}
		if !hasSpan(sp) {
			// no tokens of its own: no position, or the -1 convention
			if pos != nil && !(pos.StartPos == -1 && pos.EndPos == -1) {
				if k == "ExprArrayItem" {
					add("position: empty array/list slot has a position ("+where+")", fmt.Sprintf("%+v", *pos))
				} else {
					add("position: node without tokens has a position ("+where+")", fmt.Sprintf("%+v", *pos))
				}
			}
			sp.ok = true
			return sp
		}
		if pos == nil {
			add("position: missing ("+where+")", fmt.Sprintf("tokens span [%d,%d)", sp.s, sp.e))
			return sp
		}
		sp.ok = true
		startOK := pos.StartPos == sp.s || (sp.firstEmpty && pos.StartPos == -1)
		endOK := pos.EndPos == sp.e || (sp.lastEmpty && pos.EndPos == -1)
		if !startOK {
			sp.ok = false
			// blame the innermost: report only if the child forming the boundary is itself right
			if first == nil || !first.node || first.sp.ok {
				add("position: wrong start ("+where+")", fmt.Sprintf("StartPos %d, first token of the subtree starts at %d", pos.StartPos, sp.s))
			}
		} else if pos.StartPos >= 0 {
			if want := lt.Line(pos.StartPos); pos.StartLine != want {
				if first == nil || !first.node || first.sp.ok {
					add("position: wrong start line ("+where+")", fmt.Sprintf("StartLine %d, offset %d is on line %d", pos.StartLine, pos.StartPos, want))
				}
				sp.ok = false
			}
		} else if pos.StartLine != -1 {
			add("position: start line of a -1 boundary is not -1 ("+where+")", fmt.Sprintf("%+v", *pos))
		}
		if !endOK {
			sp.ok = false
			if last == nil || !last.node || last.sp.ok {
				add("position: wrong end ("+where+")", fmt.Sprintf("EndPos %d, last token of the subtree ends at %d", pos.EndPos, sp.e))
			}
		} else if pos.EndPos > 0 {
			if want := lt.Line(pos.EndPos - 1); pos.EndLine != want {
				if last == nil || !last.node || last.sp.ok {
					add("position: wrong end line ("+where+")", fmt.Sprintf("EndLine %d, offset %d is on line %d", pos.EndLine, pos.EndPos-1, want))
				}
				sp.ok = false
			}
		} else if pos.EndPos == -1 && pos.EndLine != -1 {
			add("position: end line of a -1 boundary is not -1 ("+where+")", fmt.Sprintf("%+v", *pos))
		}
		// nesting and sibling order on recorded positions
		prevEnd := -1
		for _, p := range astx.Parts(n) {
			if p.Node == nil {
				continue
			}
			cp := p.Node.GetPosition()
			if cp == nil || cp.StartPos < 0 || cp.EndPos < 0 {
				continue
			}
			if pos.StartPos >= 0 && pos.EndPos >= 0 && (cp.StartPos < pos.StartPos || cp.EndPos > pos.EndPos) && sp.ok {
				add("position: child "+p.Field+" not within its parent ("+where+")", fmt.Sprintf("child [%d,%d) parent [%d,%d)", cp.StartPos, cp.EndPos, pos.StartPos, pos.EndPos))
			}
			if cp.StartPos < prevEnd {
				add("position: child "+p.Field+" overlaps or precedes its previous sibling ("+where+")", fmt.Sprintf("child starts at %d, previous sibling ended at %d", cp.StartPos, prevEnd))
			}
			if cp.EndPos > prevEnd {
				prevEnd = cp.EndPos
			}
		}
		return sp
	}
	if !astx.IsNil(root) {
		walk(root, "")
	}
	return vs
}

// NoSharing: no node object reachable along two paths.
func NoSharing(root ast.Vertex) string {
	seen := map[uintptr]bool{}
	for _, n := range astx.PreOrder(root) {
		p := reflect.ValueOf(n).Pointer()
		if seen[p] {
			return astx.KindName(n)
		}
		seen[p] = true
	}
	return ""
}

var _ = position.Position{}
