package synm

import "fmt"

// Operator model. Levels: higher binds tighter — PHP manual, "Operator Precedence" (7.4 column; the 5.6
// table is the same minus ??, <=> and ??=).
type Assoc int

const (
	Left Assoc = iota
	Right
	Non
)

type BinOp struct {
	Lex   string
	Kind  string
	Level int
	As    Assoc
	Only7 bool
}

var BinOps = []BinOp{
	{"or", "BinaryLogicalOr", 1, Left, false}, {"xor", "BinaryLogicalXor", 2, Left, false}, {"and", "BinaryLogicalAnd", 3, Left, false},
	{"??", "BinaryCoalesce", 9, Right, true},
	{"||", "BinaryBooleanOr", 10, Left, false}, {"&&", "BinaryBooleanAnd", 11, Left, false},
	{"|", "BinaryBitwiseOr", 12, Left, false}, {"^", "BinaryBitwiseXor", 13, Left, false}, {"&", "BinaryBitwiseAnd", 14, Left, false},
	{"==", "BinaryEqual", 15, Non, false}, {"!=", "BinaryNotEqual", 15, Non, false}, {"<>", "BinaryNotEqual", 15, Non, false},
	{"===", "BinaryIdentical", 15, Non, false}, {"!==", "BinaryNotIdentical", 15, Non, false}, {"<=>", "BinarySpaceship", 15, Non, true},
	{"<", "BinarySmaller", 16, Non, false}, {"<=", "BinarySmallerOrEqual", 16, Non, false}, {">", "BinaryGreater", 16, Non, false}, {">=", "BinaryGreaterOrEqual", 16, Non, false},
	{"<<", "BinaryShiftLeft", 17, Left, false}, {">>", "BinaryShiftRight", 17, Left, false},
	{"+", "BinaryPlus", 18, Left, false}, {"-", "BinaryMinus", 18, Left, false}, {".", "BinaryConcat", 18, Left, false},
	{"*", "BinaryMul", 19, Left, false}, {"/", "BinaryDiv", 19, Left, false}, {"%", "BinaryMod", 19, Left, false},
	{"**", "BinaryPow", 23, Right, false},
}

type AssignOp struct {
	Lex, Kind string
	Only7     bool
}

var AssignOps = []AssignOp{{"=", "Assign", false}, {"+=", "AssignPlus", false}, {"-=", "AssignMinus", false}, {"*=", "AssignMul", false}, {"**=", "AssignPow", false},
	{"/=", "AssignDiv", false}, {".=", "AssignConcat", false}, {"%=", "AssignMod", false}, {"&=", "AssignBitwiseAnd", false}, {"|=", "AssignBitwiseOr", false},
	{"^=", "AssignBitwiseXor", false}, {"<<=", "AssignShiftLeft", false}, {">>=", "AssignShiftRight", false}, {"??=", "AssignCoalesce", true}}

const (
	assignLevel = 7
	ternLevel   = 8
	instLevel   = 21
)

type PrefOp struct {
	Lex   string
	Kind  string
	Level int
}

var PrefOps = []PrefOp{
	{"!", "BooleanNot", 20}, {"~", "BitwiseNot", 22}, {"-", "UnaryMinus", 22}, {"+", "UnaryPlus", 22}, {"@", "ErrorSuppress", 22},
	{"(int)", "CastInt", 22}, {"(float)", "CastDouble", 22}, {"(string)", "CastString", 22}, {"(array)", "CastArray", 22}, {"(object)", "CastObject", 22}, {"(bool)", "CastBool", 22}, {"(unset)", "CastUnset", 22},
	{"print", "Print", 4}, {"clone", "Clone", 25}, {"include", "Include", 0}, {"require_once", "RequireOnce", 0}, {"include_once", "IncludeOnce", 0}, {"require", "Require", 0},
}

// Tok of a flat expression: Typ ∈ atom, preinc, postinc (Lex ++ or --), bin, assign, pre, q, colon, qcolon, inst, cls.
type Tok struct {
	Typ string
	Lex string
	I   int
}

type pp struct {
	toks []Tok
	pos  int
	err  bool
}

func (p *pp) peek() *Tok {
	if p.pos < len(p.toks) {
		return &p.toks[p.pos]
	}
	return nil
}

// Parse returns the expected tree (in SX notation) of a flat expression, or ok=false if PHP rejects it.
func Parse(toks []Tok) (string, bool) {
	p := &pp{toks: toks}
	s := p.expr(-1)
	if p.err || p.pos != len(toks) {
		return "", false
	}
	return s, true
}

func (p *pp) expr(min int) string {
	lhs := p.operand()
	if p.err {
		return ""
	}
	for {
		t := p.peek()
		if t == nil {
			return lhs
		}
		switch t.Typ {
		case "bin":
			b := BinOps[t.I]
			if b.Level < min {
				return lhs
			}
			p.pos++
			next := b.Level + 1
			if b.As == Right {
				next = b.Level
			}
			rhs := p.expr(next)
			if p.err {
				return ""
			}
			lhs = fmt.Sprintf("%s(Left:%s Right:%s)", b.Kind, lhs, rhs)
			if b.As == Non {
				if n := p.peek(); n != nil && n.Typ == "bin" && BinOps[n.I].Level == b.Level {
					p.err = true
					return ""
				}
			}
		case "q":
			if ternLevel < min {
				return lhs
			}
			p.pos++
			mid := p.expr(-1) // the middle operand is a full expression
			if p.err {
				return ""
			}
			if c := p.peek(); c == nil || c.Typ != "colon" {
				p.err = true
				return ""
			}
			p.pos++
			rhs := p.expr(ternLevel + 1)
			if p.err {
				return ""
			}
			lhs = fmt.Sprintf("Ternary(Cond:%s IfTrue:%s IfFalse:%s)", lhs, mid, rhs)
		case "qcolon":
			if ternLevel < min {
				return lhs
			}
			p.pos++
			rhs := p.expr(ternLevel + 1)
			if p.err {
				return ""
			}
			lhs = fmt.Sprintf("Ternary(Cond:%s IfFalse:%s)", lhs, rhs)
		case "inst":
			if instLevel < min {
				return lhs
			}
			p.pos++
			c := p.peek()
			if c == nil || c.Typ != "cls" {
				p.err = true
				return ""
			}
			p.pos++
			// the right operand is a class reference, not an expression: chains group to the left
			lhs = fmt.Sprintf("InstanceOf(Expr:%s Class:%s)", lhs, c.Lex)
		default:
			return lhs
		}
	}
}

func (p *pp) operand() string {
	t := p.peek()
	if t == nil {
		p.err = true
		return ""
	}
	switch t.Typ {
	case "pre":
		o := PrefOps[t.I]
		p.pos++
		arg := p.expr(o.Level)
		if p.err {
			return ""
		}
		return fmt.Sprintf("%s(Expr:%s)", o.Kind, arg)
	case "preinc":
		p.pos++
		a := p.peek()
		if a == nil || a.Typ != "atom" {
			p.err = true
			return ""
		}
		p.pos++
		k := "PreInc"
		if t.Lex == "--" {
			k = "PreDec"
		}
		return fmt.Sprintf("%s(Var:%s)", k, a.Lex)
	case "atom":
		p.pos++
		if n := p.peek(); n != nil {
			switch n.Typ {
			case "assign":
				// an assignment binds to the variable on its left whatever the surrounding precedence
				p.pos++
				rhs := p.expr(assignLevel)
				if p.err {
					return ""
				}
				return fmt.Sprintf("%s(Var:%s Expr:%s)", AssignOps[n.I].Kind, t.Lex, rhs)
			case "postinc":
				p.pos++
				k := "PostInc"
				if n.Lex == "--" {
					k = "PostDec"
				}
				if m := p.peek(); m != nil && (m.Typ == "assign" || m.Typ == "postinc") {
					p.err = true
					return ""
				}
				return fmt.Sprintf("%s(Var:%s)", k, t.Lex)
			}
		}
		return t.Lex
	}
	p.err = true
	return ""
}
