// Package synm — M-syn: an independent model of "which tree PHP's grammar prescribes", written from the
// PHP language reference (operator table, construct shapes, literal forms, version gating), not from the
// repository's grammar files.
package synm

import (
	"strings"

	"github.com/z7zmey/php-parser/pkg/ast"
	"github.com/z7zmey/php-parser/verifmc/astx"
)

// SX renders a tree as kind(role:child …) with values verbatim; tokens and positions are ignored.
// Shorthands: an identifier, name part, number or plain string is its text; a variable with an identifier
// name is that text; names are their parts joined by `\` (with the leading `\` or `namespace\`).
func SX(n ast.Vertex) string {
	var b strings.Builder
	sx(n, &b)
	return b.String()
}

func nameParts(v []ast.Vertex) string {
	var ps []string
	for _, p := range v {
		ps = append(ps, SX(p))
	}
	return strings.Join(ps, `\`)
}

func sx(n ast.Vertex, b *strings.Builder) {
	if astx.IsNil(n) {
		b.WriteString("_")
		return
	}
	switch x := n.(type) {
	case *ast.Identifier:
		b.Write(x.Value)
		return
	case *ast.NamePart:
		b.Write(x.Value)
		return
	case *ast.ScalarLnumber:
		b.WriteString("int:")
		b.Write(x.Value)
		return
	case *ast.ScalarDnumber:
		b.WriteString("float:")
		b.Write(x.Value)
		return
	case *ast.ScalarString:
		b.WriteString("str:")
		b.Write(x.Value)
		return
	case *ast.ScalarEncapsedStringPart:
		b.WriteString("part:")
		b.Write(x.Value)
		return
	case *ast.ExprVariable:
		if id, ok := x.Name.(*ast.Identifier); ok && id != nil {
			b.Write(id.Value)
			return
		}
	case *ast.Name:
		b.WriteString(nameParts(x.Parts))
		return
	case *ast.NameFullyQualified:
		b.WriteString(`\` + nameParts(x.Parts))
		return
	case *ast.NameRelative:
		b.WriteString(`namespace\` + nameParts(x.Parts))
		return
	}
	v, fs := astx.Elem(n)
	b.WriteString(strings.TrimPrefix(v.Type().Name(), "Expr"))
	b.WriteString("(")
	first := true
	sep := func() {
		if !first {
			b.WriteString(" ")
		}
		first = false
	}
	for _, f := range fs {
		fv := v.Field(f.Idx)
		switch f.Kind {
		case astx.FNode:
			if fv.IsNil() || astx.IsNil(fv.Interface().(ast.Vertex)) {
				continue
			}
			sep()
			b.WriteString(f.Name + ":")
			sx(fv.Interface().(ast.Vertex), b)
		case astx.FNodes:
			if fv.Len() == 0 {
				continue
			}
			sep()
			b.WriteString(f.Name + ":[")
			for j := 0; j < fv.Len(); j++ {
				if j > 0 {
					b.WriteString(" ")
				}
				if fv.Index(j).IsNil() {
					b.WriteString("_")
				} else {
					sx(fv.Index(j).Interface().(ast.Vertex), b)
				}
			}
			b.WriteString("]")
		case astx.FValue:
			sep()
			b.WriteString("=")
			b.Write(fv.Bytes())
		}
	}
	b.WriteString(")")
}
