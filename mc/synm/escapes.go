package synm

import "strings"

// Backslash runs in interpolating strings (language reference, "Strings": a backslash escapes the character after it, so
// what follows a run of n backslashes is escaped iff n is odd). Every run length 0..6 in front of a variable, of `{$`, and
// of the closing delimiter, in double-quoted, backquoted and heredoc strings. A later `$b` keeps every string on the
// scanner's interpolation path (a string without any variable is a single constant token).
func init() {
	for n := 0; n <= 6; n++ {
		bs := strings.Repeat(`\`, n)
		odd := n%2 == 1
		type form struct{ open, close, kind string }
		for _, f := range []form{{`"`, `"`, "ScalarEncapsed"}, {"`", "`", "ShellExec"}, {"<<<A\n", "\nA", "ScalarHeredoc"}} {
			tail := ""
			if f.kind == "ScalarHeredoc" {
				tail = " part:\n" // the library keeps the line break before the closing label as a text part (cf. the heredoc schemas)
			}
			// variable
			want := f.kind + "(Parts:[part:x" + bs + " $a part: z $b"
			if odd {
				want = f.kind + "(Parts:[part:x" + bs + "$a z $b"
			}
			Schemas = append(Schemas, Schema{f.open + "x" + bs + "$a z$b" + f.close + ";", "sx", want + tail + "])", ""})
			// complex syntax: an escaped `{` is text, the `$a` behind it a simple variable
			want = f.kind + "(Parts:[part:x" + bs + " ScalarEncapsedStringBrackets(Var:$a) part:z $b"
			if odd {
				want = f.kind + "(Parts:[part:x" + bs + "{ $a part:}z $b"
			}
			Schemas = append(Schemas, Schema{f.open + "x" + bs + "{$a}z$b" + f.close + ";", "sx", want + tail + "])", ""})
			// closing delimiter
			if f.kind != "ScalarHeredoc" {
				if odd {
					Schemas = append(Schemas, Schema{f.open + "$b y" + bs + f.close + " z" + f.close + "; $c;", "sxall",
						"StmtExpression(Expr:" + f.kind + "(Parts:[$b part: y" + bs + f.close + " z])) ; StmtExpression(Expr:$c)", ""})
				} else {
					Schemas = append(Schemas, Schema{f.open + "$b y" + bs + f.close + "; $c;", "sxall",
						"StmtExpression(Expr:" + f.kind + "(Parts:[$b part: y" + bs + "])) ; StmtExpression(Expr:$c)", ""})
				}
			}
		}
	}
	// the bytes at the edges of the identifier classes directly behind a `$` in an interpolating string: a letter, `_` or a
	// byte >= 0x80 starts a variable name, anything else leaves the `$` as text
	for _, b := range []byte{'0', '9', 'a', 'z', 'A', 'Z', '_', 0x7f, 0x80, 0xff, '/', ':', '@', '[', '`', ' '} {
		start := b == '_' || b >= 'a' && b <= 'z' || b >= 'A' && b <= 'Z' || b >= 0x80
		for _, f := range []struct{ open, close, kind, tail string }{{`"`, `"`, "ScalarEncapsed", ""}, {"<<<A\n", "\nA", "ScalarHeredoc", " part:\n"}} {
			want := f.kind + "(Parts:[part:x$" + string([]byte{b}) + "y  $c" + f.tail + "])"
			if start {
				want = f.kind + "(Parts:[part:x $" + string([]byte{b}) + "y part:  $c" + f.tail + "])"
			}
			Schemas = append(Schemas, Schema{f.open + "x$" + string([]byte{b}) + "y $c" + f.close + ";", "sx", want, ""})
		}
	}
}
