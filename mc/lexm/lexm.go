// Package lexm — M-lex: how a terminal string is written down as PHP source (lexemes, scanner modes, gaps
// where PHP allows trivia), the trivia alphabet, the reference line counter and trivia classifier.
package lexm

import (
	"github.com/z7zmey/php-parser/internal/verifhook"
	"strings"

	"github.com/z7zmey/php-parser/internal/scanner"
	"github.com/z7zmey/php-parser/pkg/conf"
	"github.com/z7zmey/php-parser/pkg/token"
	"github.com/z7zmey/php-parser/pkg/version"
)

// Lexemes: first entry is the canonical spelling used in baseline renderings, the rest are alternatives
// (letter case, alternative spellings, literal forms).
var Lexemes = map[string][]string{
	"T_INCLUDE": {"include", "INCLUDE", "Include"}, "T_INCLUDE_ONCE": {"include_once", "INCLUDE_ONCE"}, "T_EXIT": {"exit", "die", "EXIT", "Die"},
	"T_IF": {"if", "IF", "If"}, "T_LNUMBER": {"1", "0", "017", "0x1F", "0b11", "9223372036854775807", "0xfF"},
	"T_DNUMBER": {"1.5", ".5", "1.", "1e3", "1E-3", "9223372036854775808", "1.5e+3", "0x8000000000000000"},
	"T_STRING": {"a", "Abc", "_x9", "a\x80\xff", "\xd7\xa9\xd7\x9c", "\x80", "\xbfz\xf7"}, "T_STRING_VARNAME": {"a"}, "T_VARIABLE": {"$a", "$_b9", "$A\x80", "$\xd7\xa9", "$\x80"}, "T_NUM_STRING": {"0", "12", "0x1A", "010", "08", "0777777777777777777777", "99999999999999999999", "0b1"},
	"T_INLINE_HTML": {"?>x<?php "}, "T_ENCAPSED_AND_WHITESPACE": {"x ", "x\\n\\\"y", " \\$ \\{ "},
	"T_CONSTANT_ENCAPSED_STRING": {"'s'", "''", "\"s\"", "\"\"", "\"a\\\nb\"", "\"a\\\rb\"", "'a\\\nb'", "\"a\\\r\nb\\\\\n\"", "b\"x\\\ny\"", "'a\\'b'", "\"a\\\"b\"", "'$a {$b}'", "\"\\$a\"", "'x\ny'", "\"x\r\ny\"", "'x\ry'", "\"a\\\\\""},
	"T_ECHO": {"echo", "ECHO", "Echo"}, "T_DO": {"do", "DO"}, "T_WHILE": {"while", "WHILE", "While"}, "T_ENDWHILE": {"endwhile", "ENDWHILE"},
	"T_FOR": {"for", "FOR"}, "T_ENDFOR": {"endfor", "ENDFOR"}, "T_FOREACH": {"foreach", "FOREACH", "ForEach"}, "T_ENDFOREACH": {"endforeach", "ENDFOREACH"},
	"T_DECLARE": {"declare", "DECLARE"}, "T_ENDDECLARE": {"enddeclare", "ENDDECLARE"}, "T_AS": {"as", "AS", "As"}, "T_SWITCH": {"switch", "SWITCH"},
	"T_ENDSWITCH": {"endswitch", "ENDSWITCH"}, "T_CASE": {"case", "CASE"}, "T_DEFAULT": {"default", "DEFAULT"}, "T_BREAK": {"break", "BREAK"},
	"T_CONTINUE": {"continue", "CONTINUE"}, "T_GOTO": {"goto", "GOTO"}, "T_FUNCTION": {"function", "FUNCTION", "Function"}, "T_FN": {"fn", "FN", "Fn"},
	"T_CONST": {"const", "CONST"}, "T_RETURN": {"return", "RETURN"}, "T_TRY": {"try", "TRY"}, "T_CATCH": {"catch", "CATCH"}, "T_FINALLY": {"finally", "FINALLY"},
	"T_THROW": {"throw", "THROW"}, "T_USE": {"use", "USE", "Use"}, "T_INSTEADOF": {"insteadof", "INSTEADOF", "InsteadOf"}, "T_GLOBAL": {"global", "GLOBAL"},
	"T_VAR": {"var", "VAR"}, "T_UNSET": {"unset", "UNSET"}, "T_ISSET": {"isset", "ISSET", "IsSet"}, "T_EMPTY": {"empty", "EMPTY"},
	"T_HALT_COMPILER": {"__halt_compiler", "__HALT_COMPILER"}, "T_CLASS": {"class", "CLASS", "Class"}, "T_TRAIT": {"trait", "TRAIT"},
	"T_INTERFACE": {"interface", "INTERFACE"}, "T_EXTENDS": {"extends", "EXTENDS"}, "T_IMPLEMENTS": {"implements", "IMPLEMENTS"}, "T_OBJECT_OPERATOR": {"->"},
	"T_DOUBLE_ARROW": {"=>"}, "T_LIST": {"list", "LIST", "List"}, "T_ARRAY": {"array", "ARRAY", "Array"}, "T_CALLABLE": {"callable", "CALLABLE"},
	"T_CLASS_C": {"__CLASS__", "__class__"}, "T_TRAIT_C": {"__TRAIT__", "__trait__"}, "T_METHOD_C": {"__METHOD__", "__method__"},
	"T_FUNC_C": {"__FUNCTION__", "__function__"}, "T_LINE": {"__LINE__", "__line__"}, "T_FILE": {"__FILE__", "__file__"},
	"T_START_HEREDOC": {"<<<A\n", "<<<\"A\"\n", "<<< A\n", "<<<A\r\n", "<<<A\r"}, "T_END_HEREDOC": {"\nA"}, "T_DOLLAR_OPEN_CURLY_BRACES": {"${"},
	"T_CURLY_OPEN": {"{"}, "T_PAAMAYIM_NEKUDOTAYIM": {"::"}, "T_NAMESPACE": {"namespace", "NAMESPACE", "NameSpace"}, "T_NS_C": {"__NAMESPACE__", "__namespace__"},
	"T_DIR": {"__DIR__", "__dir__"}, "T_NS_SEPARATOR": {"\\"}, "T_ELLIPSIS": {"..."}, "T_EVAL": {"eval", "EVAL"}, "T_REQUIRE": {"require", "REQUIRE"},
	"T_REQUIRE_ONCE": {"require_once", "REQUIRE_ONCE"}, "T_LOGICAL_OR": {"or", "OR", "Or"}, "T_LOGICAL_XOR": {"xor", "XOR", "Xor"}, "T_LOGICAL_AND": {"and", "AND", "And"},
	"T_INSTANCEOF": {"instanceof", "INSTANCEOF", "InstanceOf"}, "T_NEW": {"new", "NEW", "New"}, "T_CLONE": {"clone", "CLONE"}, "T_ELSEIF": {"elseif", "ELSEIF", "ElseIf"},
	"T_ELSE": {"else", "ELSE", "Else"}, "T_ENDIF": {"endif", "ENDIF"}, "T_PRINT": {"print", "PRINT"}, "T_YIELD": {"yield", "YIELD"},
	"T_STATIC": {"static", "STATIC", "Static"}, "T_ABSTRACT": {"abstract", "ABSTRACT"}, "T_FINAL": {"final", "FINAL"}, "T_PRIVATE": {"private", "PRIVATE"},
	"T_PROTECTED": {"protected", "PROTECTED"}, "T_PUBLIC": {"public", "PUBLIC", "Public"}, "T_INC": {"++"}, "T_DEC": {"--"},
	"T_YIELD_FROM": {"yield from", "YIELD FROM", "yield\tfrom", "yield\nfrom", "yield  from", "Yield From"},
	"T_INT_CAST":    {"(int)", "(integer)", "(INT)", "( int )", "(\tInteger\t)"},
	"T_DOUBLE_CAST": {"(float)", "(double)", "(real)", "(FLOAT)", "( double )"},
	"T_STRING_CAST": {"(string)", "(binary)", "(STRING)", "( string )"},
	"T_ARRAY_CAST":  {"(array)", "(ARRAY)", "( array )"}, "T_OBJECT_CAST": {"(object)", "(OBJECT)", "( object )"},
	"T_BOOL_CAST": {"(bool)", "(boolean)", "(BOOL)", "( Boolean )"}, "T_UNSET_CAST": {"(unset)", "(UNSET)", "( unset )"},
	"T_COALESCE": {"??"}, "T_SPACESHIP": {"<=>"}, "T_PLUS_EQUAL": {"+="}, "T_MINUS_EQUAL": {"-="}, "T_MUL_EQUAL": {"*="},
	"T_POW_EQUAL": {"**="}, "T_DIV_EQUAL": {"/="}, "T_CONCAT_EQUAL": {".="}, "T_MOD_EQUAL": {"%="}, "T_AND_EQUAL": {"&="}, "T_OR_EQUAL": {"|="}, "T_XOR_EQUAL": {"^="},
	"T_SL_EQUAL": {"<<="}, "T_SR_EQUAL": {">>="}, "T_COALESCE_EQUAL": {"??="}, "T_BOOLEAN_OR": {"||"}, "T_BOOLEAN_AND": {"&&"}, "T_POW": {"**"}, "T_SL": {"<<"},
	"T_SR": {">>"}, "T_IS_IDENTICAL": {"==="}, "T_IS_NOT_IDENTICAL": {"!=="}, "T_IS_EQUAL": {"=="}, "T_IS_NOT_EQUAL": {"!=", "<>"},
	"T_IS_SMALLER_OR_EQUAL": {"<="}, "T_IS_GREATER_OR_EQUAL": {">="},
}

// Reserved words (a name spelled like one of these is a keyword unless it follows -> or ::).
var reserved = func() map[string]bool {
	m := map[string]bool{}
	for t, l := range Lexemes {
		if strings.HasPrefix(t, "T_") && len(l) > 0 && isWord(l[0]) && t != "T_STRING" && t != "T_STRING_VARNAME" {
			m[strings.ToLower(l[0])] = true
		}
	}
	return m
}()

func isWord(s string) bool {
	if s == "" {
		return false
	}
	for i := 0; i < len(s); i++ {
		if !IsNameByte(s[i]) {
			return false
		}
	}
	return true
}

func IsNameByte(r byte) bool {
	return (r >= 'A' && r <= 'Z') || (r >= 'a' && r <= 'z') || (r >= '0' && r <= '9') || r == '_' || r >= 0x80
}

func Reserved(word string) bool { return reserved[strings.ToLower(word)] }

// Canon returns the canonical lexeme of a terminal ("" if unknown).
func Canon(t string) string {
	if l, ok := Lexemes[t]; ok {
		return l[0]
	}
	if len(t) == 3 && t[0] == '\'' && t[2] == '\'' {
		return t[1:2]
	}
	return ""
}

type GapKind int

const (
	NoGap   GapKind = iota
	GapFree         // any trivia
	GapWS           // whitespace only (PHP restricts comments here)
	GapNL           // after a heredoc closing label: trivia must start with a line terminator (≤ 7.2 rule)
)

// Piece of a rendering: either the lexeme of terminal number Tok (index into the sentence) or a gap.
type Piece struct {
	Text string
	Tok  int // -1 for gaps and the open tag
	Gap  GapKind
	Mode string // scanner mode the piece is in
}

type Rendering struct {
	Pieces []Piece
	OK     bool // false: the terminal string cannot be written down by this renderer
	Why    string
}

func (r *Rendering) Source() string {
	var b strings.Builder
	for _, p := range r.Pieces {
		b.WriteString(p.Text)
	}
	return b.String()
}

// Offsets returns the start offset of every piece.
func (r *Rendering) Offsets() []int {
	o := make([]int, len(r.Pieces)+1)
	for i, p := range r.Pieces {
		o[i+1] = o[i] + len(p.Text)
	}
	return o
}

// Render writes a terminal string down in baseline layout: `<?php `, then every PHP-mode token preceded by
// one blank; string-mode tokens are adjacent. lex[i] (optional) overrides the lexeme of token i.
func Render(toks []string, lex map[int]string) *Rendering {
	r := &Rendering{OK: true}
	add := func(text string, tok int, gap GapKind, mode string) {
		r.Pieces = append(r.Pieces, Piece{text, tok, gap, mode})
	}
	add("<?php ", -1, NoGap, "php")
	mode := []string{"php"}
	prev := ""
	noGapNext := false // next PHP-mode token must touch the previous one
	for i, t := range toks {
		m := mode[len(mode)-1]
		lx, ok := lex[i]
		if !ok {
			lx = Canon(t)
			if lx == "" {
				r.OK = false
				r.Why = "no lexeme for " + t
				return r
			}
		}
		phpGap := func() {
			if noGapNext {
				noGapNext = false
				return
			}
			g := GapFree
			switch {
			case prev == "T_OBJECT_OPERATOR" && Reserved(lx):
				g = GapWS // a reserved word is a property name only directly (modulo blanks) after ->
			case prev == "T_END_HEREDOC":
				g = GapNL
			}
			text := " "
			if g == GapNL {
				text = "\n"
			}
			add(text, -1, g, m)
		}
		inStr := m == "dq" || m == "bq" || m == "hd"
		switch {
		case (m == "php" || m == "php}") && t == `'"'`:
			phpGap()
			add(lx, i, NoGap, m)
			mode = append(mode, "dq")
		case m == "dq" && t == `'"'`:
			add(lx, i, NoGap, m)
			mode = mode[:len(mode)-1]
		case (m == "php" || m == "php}") && t == "'`'":
			phpGap()
			add(lx, i, NoGap, m)
			mode = append(mode, "bq")
		case m == "bq" && t == "'`'":
			add(lx, i, NoGap, m)
			mode = mode[:len(mode)-1]
		case (m == "php" || m == "php}") && t == "T_START_HEREDOC":
			phpGap()
			add(lx, i, NoGap, m)
			mode = append(mode, "hd")
		case m == "hd" && t == "T_END_HEREDOC":
			add(lx, i, NoGap, m)
			mode = mode[:len(mode)-1]
		case inStr && t == "T_CURLY_OPEN":
			add(lx, i, NoGap, m)
			mode = append(mode, "php}")
			noGapNext = true // `{$`: the variable must follow at once
		case inStr && t == "T_DOLLAR_OPEN_CURLY_BRACES":
			add(lx, i, NoGap, m)
			mode = append(mode, "php}")
			noGapNext = true
		case inStr && t == "'['":
			add(lx, i, NoGap, m)
			mode = append(mode, "idx")
		case inStr:
			if t == "T_END_HEREDOC" || t == "T_START_HEREDOC" {
				r.OK = false
				r.Why = "heredoc delimiter inside another string mode"
				return r
			}
			add(lx, i, NoGap, m)
		case m == "idx":
			add(lx, i, NoGap, m)
			if t == "']'" {
				mode = mode[:len(mode)-1]
			}
		default: // php, php}
			if m == "php}" && t == "T_STRING_VARNAME" {
				add(lx, i, NoGap, m) // `${name` — name touches the opener, and `[` or `}` touches the name
				noGapNext = true
				break
			}
			phpGap()
			add(lx, i, NoGap, m)
			if m == "php}" {
				if t == "'{'" {
					mode = append(mode, "php}")
				} else if t == "'}'" {
					mode = mode[:len(mode)-1]
				}
			}
		}
		prev = t
	}
	if len(mode) != 1 {
		// unterminated string mode: still renderable (used for invalid inputs), but flagged
		r.Why = "ends inside mode " + mode[len(mode)-1]
	}
	return r
}

// TokName names a scanner token the way y.output does.
func TokName(id token.ID) string {
	if id > 0 && id < 256 {
		return "'" + string(rune(id)) + "'"
	}
	return id.String()
}

// Scan runs the real scanner; ok=false if it panicked or did not stop.
func Scan(src []byte, v *version.Version) (names []string, toks []*token.Token, ok bool) {
	steps, budget := 0, 64+16*len(src)
	verifhook.Tick = func() {
		steps++
		if steps > budget {
			panic("scanner step budget exceeded")
		}
	}
	defer func() {
		verifhook.Tick = nil
		if r := recover(); r != nil {
			names, toks, ok = nil, nil, false
		}
	}()
	l := scanner.NewLexer(src, conf.Config{Version: v})
	for i := 0; i < 16*len(src)+64; i++ {
		t := l.Lex()
		if t.ID <= 0 {
			return names, toks, true
		}
		names = append(names, TokName(t.ID))
		toks = append(toks, t)
	}
	return nil, nil, false
}

// ---------------------------------------------------------------------------------------------
// trivia

type Trivia struct {
	Text    string
	WSOnly  bool // consists of whitespace only
	Comment bool
}

// TriviaAlphabet: "" (deletion), blanks, each newline style, each comment style, combinations.
var TriviaAlphabet = []Trivia{
	{"", true, false}, {"  ", true, false}, {"\t", true, false}, {"\n", true, false}, {"\r\n", true, false}, {"\r", true, false}, {" \n\t\r\n ", true, false},
	{"/*c*/", false, true}, {" /** d*/ ", false, true}, {"//c\n", false, true}, {"#c\n", false, true}, {"//c\r", false, true}, {"#c\r\n", false, true},
	{" /*a*/ /*b\n*/\n", false, true}, {"/**/", false, true}, {"/** d\r\n * e */ ", false, true}, {"// ?\n", false, true}, {"\n#\n", false, true},
}

// Separable: may the blank between two adjacent lexemes be deleted without changing the token string?
// Conservative: false whenever the two characters could fuse.
func Separable(left, right string) bool {
	if left == "" || right == "" {
		return false
	}
	a, b := left[len(left)-1], right[0]
	if IsNameByte(a) && IsNameByte(b) {
		return false
	}
	op := func(c byte) bool { return strings.IndexByte("+-*/%=<>!&|^.?:~@\\#$", c) >= 0 }
	if op(a) && op(b) {
		return false
	}
	if (a >= '0' && a <= '9' || a == '.') && (b == '.' || b >= '0' && b <= '9' || b == 'e' || b == 'E') {
		return false
	}
	if a == '$' || b == '$' && a == '$' {
		return false
	}
	if a == '<' || b == '>' && (a == '?' || a == '-' || a == '=') {
		return false
	}
	if a == '(' && IsNameByte(b) { // `(int)` cast look-alike: `( int )` would become a cast only with `)`, keep
		return true
	}
	if IsNameByte(a) && (b == '\'' || b == '"') && (a == 'b' || a == 'B') && len(left) == 1 {
		return false // b"…" binary string prefix
	}
	if a == '\\' || b == '\\' {
		return IsNameByte(a) != IsNameByte(b) || true
	}
	return true
}

// ---------------------------------------------------------------------------------------------
// reference line counter and classifier

// Line is the 1-based line of byte offset off: LF, CRLF and a lone CR each end one line.
func Line(src []byte, off int) int {
	l := 1
	for i := 0; i < off && i < len(src); i++ {
		if src[i] == '\n' {
			l++
		} else if src[i] == '\r' && !(i+1 < len(src) && src[i+1] == '\n') {
			l++
		}
	}
	return l
}

// LineTable precomputes line starts.
type LineTable struct{ ends []int } // offsets just after each line terminator

func NewLineTable(src []byte) *LineTable {
	t := &LineTable{}
	for i := 0; i < len(src); i++ {
		if src[i] == '\n' || (src[i] == '\r' && !(i+1 < len(src) && src[i+1] == '\n')) {
			t.ends = append(t.ends, i+1)
		}
	}
	return t
}

// Line of offset off (1-based): number of line terminators that end at or before off, plus one.
func (t *LineTable) Line(off int) int {
	lo, hi := 0, len(t.ends)
	for lo < hi {
		m := (lo + hi) / 2
		if t.ends[m] <= off {
			lo = m + 1
		} else {
			hi = m
		}
	}
	return lo + 1
}

type TriviaClass int

const (
	NotTrivia TriviaClass = iota
	Whitespace
	Comment
	DocComment
)

// Classify a free-floating token text the way PHP's token_get_all does.
func Classify(text []byte) TriviaClass {
	s := string(text)
	switch {
	case s == "":
		return NotTrivia
	case strings.HasPrefix(s, "/**") && len(s) >= 5 && (s[3] == ' ' || s[3] == '\t' || s[3] == '\n' || s[3] == '\r'):
		return DocComment
	case strings.HasPrefix(s, "/*"), strings.HasPrefix(s, "//"), strings.HasPrefix(s, "#"):
		return Comment
	}
	for i := 0; i < len(s); i++ {
		switch s[i] {
		case ' ', '\t', '\n', '\r', '\v', '\f':
		default:
			return NotTrivia
		}
	}
	return Whitespace
}
