package drive

import (
	"fmt"
	"runtime/debug"
	"strings"
	"syscall"

	"github.com/z7zmey/php-parser/pkg/version"
)

// Write-protected input: the source is copied into an anonymous mapping that is made read-only for the
// duration of the parse, and faults are turned into panics (debug.SetPanicOnFault), so ANY store into the
// caller's buffer is caught — also one that writes the bytes that are already there (an append on a
// sub-slice of the input), which a before/after comparison cannot see.

const protSize = 1 << 16

var protRegion []byte

func protBuf(n int) []byte {
	if n > protSize {
		return nil
	}
	if protRegion == nil {
		m, err := syscall.Mmap(-1, 0, protSize, syscall.PROT_READ|syscall.PROT_WRITE, syscall.MAP_ANON|syscall.MAP_PRIVATE)
		if err != nil {
			return nil
		}
		protRegion = m
	}
	return protRegion
}

// ParseProtected is Parse on a read-only copy of src. The returned tree must not be used after the next
// call (its byte slices point into the shared mapping). WriteFault is set when the parser stored into the
// input.
func ParseProtected(src []byte, v *version.Version, withCallback bool) (res Result, writeFault bool, supported bool) {
	region := protBuf(len(src))
	if region == nil {
		return Parse(src, v, withCallback), false, false
	}
	if syscall.Mprotect(region, syscall.PROT_READ|syscall.PROT_WRITE) != nil {
		return Parse(src, v, withCallback), false, false
	}
	// the input sits at the end of the mapping's first page run so that its capacity ends with the data
	buf := region[:len(src):len(src)]
	copy(buf, src)
	// capacity is deliberately NOT trimmed for the parser: it gets the slice it would get from a caller who
	// read a file into a larger buffer
	in := region[:len(src)]
	if syscall.Mprotect(region, syscall.PROT_READ) != nil {
		return Parse(src, v, withCallback), false, false
	}
	old := debug.SetPanicOnFault(true)
	defer func() {
		debug.SetPanicOnFault(old)
		syscall.Mprotect(region, syscall.PROT_READ|syscall.PROT_WRITE)
	}()
	res = parseNoCopy(in, src, v, withCallback)
	if res.Panic != nil {
		msg := fmt.Sprint(res.Panic)
		if strings.Contains(msg, "unexpected fault address") || strings.Contains(msg, "invalid memory address") {
			// a fault on the protected mapping, or an ordinary nil dereference? The same parse on ordinary
			// memory tells: if it does not panic, the fault was a store into the input.
			syscall.Mprotect(region, syscall.PROT_READ|syscall.PROT_WRITE)
			if plain := Parse(src, v, withCallback); plain.Panic == nil {
				writeFault = true
			}
		}
	}
	return res, writeFault, true
}
