// Package drive: runs the real parser under a deterministic step budget.
package drive

import (
	"bytes"
	"fmt"
	"runtime/debug"
	"strings"

	"github.com/z7zmey/php-parser/internal/verifhook"
	"github.com/z7zmey/php-parser/pkg/ast"
	"github.com/z7zmey/php-parser/pkg/conf"
	"github.com/z7zmey/php-parser/pkg/errors"
	"github.com/z7zmey/php-parser/pkg/parser"
	"github.com/z7zmey/php-parser/pkg/version"
)

type hangSentinel struct{}

type Result struct {
	Root     ast.Vertex
	Errs     []*errors.Error
	Panic    interface{}
	PanicLoc string // innermost repository function on the panic stack
	Hang     bool
	Steps    int // scanner loop restarts + Lex calls
	LexCalls int
	ErrAtLex []int // number of Lex calls made when each error was delivered
	Err      error
	Mutated  bool // the input buffer was modified
	TypedNil ast.Vertex // Parse returned a non-nil interface that holds a nil node (kept here; Root is nil then)
}

func (r *Result) OK() bool    { return r.Panic == nil && !r.Hang }
func (r *Result) NErr() int   { return len(r.Errs) }
func (r *Result) Clean() bool { return r.OK() && len(r.Errs) == 0 && r.Root != nil }

// Budget of scanner steps for an input of n bytes. A correct scanner consumes at least one byte per loop
// restart; measured maxima on valid code are below 3n.
func Budget(n int) int { return 64 + 16*n }

// Parse runs parser.Parse on a private copy of src.
func Parse(src []byte, v *version.Version, withCallback bool) (res Result) {
	return parseNoCopy(append([]byte(nil), src...), src, v, withCallback)
}

// parseNoCopy parses buf (which holds a copy of src) and compares it with src afterwards.
func parseNoCopy(buf, src []byte, v *version.Version, withCallback bool) (res Result) {
	budget := Budget(len(src))
	verifhook.Tick = func() {
		res.Steps++
		if res.Steps > budget {
			panic(hangSentinel{})
		}
	}
	verifhook.Point = func() {
		res.Steps++
		res.LexCalls++
		if res.Steps > budget {
			panic(hangSentinel{})
		}
	}
	defer func() {
		verifhook.Tick, verifhook.Point = nil, nil
		if r := recover(); r != nil {
			if _, ok := r.(hangSentinel); ok {
				res.Hang = true
			} else {
				res.Panic = r
				res.PanicLoc = panicLoc(string(debug.Stack()))
			}
			res.Root = nil
		}
		if !bytes.Equal(buf, src) {
			res.Mutated = true
		}
	}()
	cfg := conf.Config{Version: v}
	if withCallback {
		cfg.ErrorHandlerFunc = func(e *errors.Error) {
			res.Errs = append(res.Errs, e)
			res.ErrAtLex = append(res.ErrAtLex, res.LexCalls)
		}
	}
	res.Root, res.Err = parser.Parse(buf, cfg)
	if res.Root != nil && isNilVertex(res.Root) {
		res.TypedNil = res.Root
		res.Root = nil
	}
	return
}

func isNilVertex(n ast.Vertex) bool {
	switch x := n.(type) {
	case *ast.Root:
		return x == nil
	}
	return false
}

// panicLoc: innermost function of the repository on the stack of a panic (line numbers dropped).
func panicLoc(stack string) string {
	lines := strings.Split(stack, "\n")
	seenPanic := false
	for _, l := range lines {
		if strings.HasPrefix(l, "panic(") {
			seenPanic = true
			continue
		}
		if !seenPanic {
			continue
		}
		if strings.HasPrefix(l, "github.com/z7zmey/php-parser/") && !strings.Contains(l, "/verifmc/") && !strings.Contains(l, "verifhook") {
			f := strings.TrimPrefix(l, "github.com/z7zmey/php-parser/")
			if i := strings.LastIndex(f, "("); i > 0 {
				f = f[:i]
			}
			return f
		}
	}
	return "?"
}

// PanicMsg normalises a panic value (numbers dropped) for use in finding keys.
func PanicMsg(p interface{}) string {
	s := fmt.Sprint(p)
	var b strings.Builder
	for i := 0; i < len(s); i++ {
		if s[i] >= '0' && s[i] <= '9' {
			if b.Len() == 0 || b.String()[b.Len()-1] != 'N' {
				b.WriteByte('N')
			}
			continue
		}
		b.WriteByte(s[i])
	}
	r := b.String()
	if len(r) > 80 {
		r = r[:80]
	}
	return r
}

func V(major, minor uint64) *version.Version { return &version.Version{Major: major, Minor: minor} }

var V74, V72, V56 = V(7, 4), V(7, 2), V(5, 6)
