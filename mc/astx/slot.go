package astx

import (
	"fmt"
	"reflect"
	"strings"

	"github.com/z7zmey/php-parser/pkg/ast"
	"github.com/z7zmey/php-parser/pkg/position"
	"github.com/z7zmey/php-parser/pkg/token"
)

// Marker returns a byte string that cannot occur in printer glue or canonical lexemes.
func Marker(tag string, i, j int) []byte {
	return []byte(fmt.Sprintf("%s\x01%s%d.%d\x02%s", MarkerPre, tag, i, j, MarkerSuf))
}

// MarkerPre / MarkerSuf wrap every marker in text of the caller's choice (e.g. something that looks like an open or a close
// tag: the printer derives its mode from the text of the chunks it writes). UnwrapMarkers removes the wrapping from output.
var MarkerPre, MarkerSuf string

// FreeID is the id given to the free-floating tokens of synthetic nodes (0: T_WHITESPACE).
var FreeID token.ID

func freeID() token.ID {
	if FreeID == 0 {
		return token.T_WHITESPACE
	}
	return FreeID
}

func UnwrapMarkers(out string) string {
	if MarkerSuf != "" {
		out = strings.Replace(out, "\x02"+MarkerSuf, "\x02", -1)
	}
	if MarkerPre != "" {
		out = strings.Replace(out, MarkerPre+"\x01", "\x01", -1)
	}
	return out
}

// SlotSpec says how one field of a synthetic node is filled.
type SlotSpec struct {
	Present bool
	Items   int // FNodes: number of items; FToks: number of tokens
}

// Built describes a synthetic node.
type Built struct {
	Node     ast.Vertex
	Fields   []Field
	Spec     []SlotSpec
	Children []ast.Vertex // expected traversal order below Node (direct children, field order)
}

// Leaf builds a marker leaf.
func Leaf(tag string, i, j int) ast.Vertex {
	return &ast.Identifier{Value: Marker(tag, i, j)}
}

// Build fills a fresh node of the given kind according to spec (indexed like Fields()).
//
//	token slot   → token with value T<i> and one free-floating token F<i>
//	token list   → Items tokens S<i>.<j>, each with free-floating G<i>.<j>
//	child        → marker leaf N<i>
//	child list   → Items marker leaves L<i>.<j>
//	Value        → V<i>
//	Position     → a recognisable position (line i+1 …)
func Build(mk func() ast.Vertex, spec []SlotSpec, child func(i, j int) ast.Vertex) *Built {
	return BuildTagged(mk, spec, child, "")
}

// BuildTagged is Build with every marker tag prefixed (nested synthetic nodes need distinct markers).
func BuildTagged(mk func() ast.Vertex, spec []SlotSpec, child func(i, j int) ast.Vertex, pre string) *Built {
	n := mk()
	v, fs := Elem(n)
	b := &Built{Node: n, Fields: fs, Spec: spec}
	if child == nil {
		child = func(i, j int) ast.Vertex {
			if j < 0 {
				return Leaf("N", i, 0)
			}
			return Leaf("L", i, j)
		}
	}
	for i, f := range fs {
		if i >= len(spec) || !spec[i].Present {
			continue
		}
		fv := v.Field(f.Idx)
		switch f.Kind {
		case FTok:
			fv.Set(reflect.ValueOf(&token.Token{ID: token.ID(60000 + i), Value: Marker(pre+"T", i, 0),
				FreeFloating: []*token.Token{{ID: freeID(), Value: Marker(pre+"F", i, 0)}}}))
		case FToks:
			var l []*token.Token
			for j := 0; j < spec[i].Items; j++ {
				l = append(l, &token.Token{ID: token.ID(61000 + i), Value: Marker(pre+"S", i, j),
					FreeFloating: []*token.Token{{ID: freeID(), Value: Marker(pre+"G", i, j)}}})
			}
			if l == nil {
				l = []*token.Token{}
			}
			fv.Set(reflect.ValueOf(l))
		case FNode:
			c := child(i, -1)
			fv.Set(reflect.ValueOf(&c).Elem())
			b.Children = append(b.Children, c)
		case FNodes:
			l := []ast.Vertex{}
			for j := 0; j < spec[i].Items; j++ {
				c := child(i, j)
				l = append(l, c)
				b.Children = append(b.Children, c)
			}
			fv.Set(reflect.ValueOf(l))
		case FValue:
			fv.SetBytes(Marker(pre+"V", i, 0))
		case FPos:
			fv.Set(reflect.ValueOf(&position.Position{StartLine: i + 1, EndLine: i + 2, StartPos: 100 + i, EndPos: 200 + i}))
		}
	}
	return b
}

// SlotIdx lists the indexes (into Fields) of the fields of the given kinds.
func SlotIdx(fs []Field, kinds ...FieldKind) []int {
	var out []int
	for i, f := range fs {
		for _, k := range kinds {
			if f.Kind == k {
				out = append(out, i)
			}
		}
	}
	return out
}
