// Package astx: reflection over pkg/ast — nothing here knows a node kind by name, so it follows whatever
// the current tree declares.
package astx

import (
	"bytes"
	"fmt"
	"reflect"
	"strings"
	"sync"

	"github.com/z7zmey/php-parser/pkg/ast"
	"github.com/z7zmey/php-parser/pkg/position"
	"github.com/z7zmey/php-parser/pkg/token"
)

var (
	VertexT = reflect.TypeOf((*ast.Vertex)(nil)).Elem()
	TokT    = reflect.TypeOf((*token.Token)(nil))
	PosT    = reflect.TypeOf((*position.Position)(nil))
	bytesT  = reflect.TypeOf([]byte(nil))
)

type FieldKind int

const (
	FTok FieldKind = iota
	FToks
	FNode
	FNodes
	FValue
	FPos
	FOther
)

func (k FieldKind) String() string {
	return [...]string{"tok", "toks", "node", "nodes", "value", "pos", "other"}[k]
}

type Field struct {
	Idx    int
	Name   string
	Kind   FieldKind
	SepFor int // FToks: index (into Fields) of the list whose separators these are, or -1
	SepBy  int // FNodes: index (into Fields) of its separator-token field, or -1
}

var fieldCache sync.Map

// Fields lists the fields of a node struct in declaration order, classified.
func Fields(t reflect.Type) []Field {
	if v, ok := fieldCache.Load(t); ok {
		return v.([]Field)
	}
	var out []Field
	for i := 0; i < t.NumField(); i++ {
		f := t.Field(i)
		fd := Field{Idx: i, Name: f.Name, SepFor: -1, SepBy: -1}
		switch {
		case f.Type == TokT:
			fd.Kind = FTok
		case f.Type.Kind() == reflect.Slice && f.Type.Elem() == TokT:
			fd.Kind = FToks
		case f.Type == VertexT:
			fd.Kind = FNode
		case f.Type.Kind() == reflect.Slice && f.Type.Elem() == VertexT:
			fd.Kind = FNodes
		case f.Type == PosT:
			fd.Kind = FPos
		case f.Type == bytesT:
			fd.Kind = FValue
		default:
			fd.Kind = FOther
		}
		out = append(out, fd)
	}
	// pair separator-token lists with the list they separate: <P>SeparatorTkns ↔ field <P> / <P>s,
	// a bare SeparatorTkns ↔ nearest preceding []Vertex field.
	for i := range out {
		if out[i].Kind != FToks || !strings.HasSuffix(out[i].Name, "SeparatorTkns") {
			continue
		}
		p := strings.TrimSuffix(out[i].Name, "SeparatorTkns")
		target := -1
		if p != "" {
			for j := range out {
				if out[j].Kind == FNodes && (out[j].Name == p || out[j].Name == p+"s") {
					target = j
				}
			}
		}
		if target < 0 {
			for j := i - 1; j >= 0; j-- {
				if out[j].Kind == FNodes && out[j].SepBy < 0 {
					target = j
					break
				}
			}
		}
		if target >= 0 {
			out[i].SepFor = target
			out[target].SepBy = i
		}
	}
	fieldCache.Store(t, out)
	return out
}

func IsNil(n ast.Vertex) bool {
	if n == nil {
		return true
	}
	v := reflect.ValueOf(n)
	return v.Kind() == reflect.Ptr && v.IsNil()
}

func KindName(n ast.Vertex) string {
	if n == nil {
		return "nil"
	}
	t := reflect.TypeOf(n)
	if t.Kind() == reflect.Ptr {
		t = t.Elem()
	}
	return t.Name()
}

// Elem returns the struct value behind a node and its classified fields.
func Elem(n ast.Vertex) (reflect.Value, []Field) {
	v := reflect.ValueOf(n).Elem()
	return v, Fields(v.Type())
}

// Children in field order (nil children skipped).
func Children(n ast.Vertex) []ast.Vertex {
	var out []ast.Vertex
	v, fs := Elem(n)
	for _, f := range fs {
		switch f.Kind {
		case FNode:
			fv := v.Field(f.Idx)
			if !fv.IsNil() {
				c := fv.Interface().(ast.Vertex)
				if !IsNil(c) {
					out = append(out, c)
				}
			}
		case FNodes:
			fv := v.Field(f.Idx)
			for j := 0; j < fv.Len(); j++ {
				e := fv.Index(j)
				if !e.IsNil() {
					c := e.Interface().(ast.Vertex)
					if !IsNil(c) {
						out = append(out, c)
					}
				}
			}
		}
	}
	return out
}

// PreOrder lists the nodes of a tree, parents first, children in field order.
func PreOrder(n ast.Vertex) []ast.Vertex {
	var out []ast.Vertex
	var rec func(n ast.Vertex)
	rec = func(n ast.Vertex) {
		out = append(out, n)
		for _, c := range Children(n) {
			rec(c)
		}
	}
	if !IsNil(n) {
		rec(n)
	}
	return out
}

// Part is one element of a node in print order: a token slot, a separator token, or a child.
type Part struct {
	Field string
	Index int // index within a list field, else -1
	Tok   *token.Token
	Node  ast.Vertex
}

// Parts lists the present tokens and children of one node in print order: declaration order, with every
// separated list interleaved with its separator tokens.
func Parts(n ast.Vertex) []Part {
	var out []Part
	v, fs := Elem(n)
	for _, f := range fs {
		fv := v.Field(f.Idx)
		switch f.Kind {
		case FTok:
			if tk := fv.Interface().(*token.Token); tk != nil {
				out = append(out, Part{Field: f.Name, Index: -1, Tok: tk})
			}
		case FToks:
			if f.SepFor >= 0 {
				continue // emitted with its list
			}
			for j := 0; j < fv.Len(); j++ {
				if tk := fv.Index(j).Interface().(*token.Token); tk != nil {
					out = append(out, Part{Field: f.Name, Index: j, Tok: tk})
				}
			}
		case FNode:
			if !fv.IsNil() {
				if c := fv.Interface().(ast.Vertex); !IsNil(c) {
					out = append(out, Part{Field: f.Name, Index: -1, Node: c})
				}
			}
		case FNodes:
			var sep reflect.Value
			sepName := ""
			nsep := 0
			if f.SepBy >= 0 {
				sep = v.Field(fs[f.SepBy].Idx)
				sepName = fs[f.SepBy].Name
				nsep = sep.Len()
			}
			n := fv.Len()
			for j := 0; j < n || j < nsep; j++ {
				if j < n && !fv.Index(j).IsNil() {
					if c := fv.Index(j).Interface().(ast.Vertex); !IsNil(c) {
						out = append(out, Part{Field: f.Name, Index: j, Node: c})
					}
				}
				if j < nsep {
					if tk := sep.Index(j).Interface().(*token.Token); tk != nil {
						out = append(out, Part{Field: sepName, Index: j, Tok: tk})
					}
				}
			}
		}
	}
	return out
}

// TokRef is a token as found in a tree.
type TokRef struct {
	Tok   *token.Token
	Owner ast.Vertex
	Field string
	Free  bool // a free-floating token hanging on the next TokRef with Free == false
}

// Tokens lists every token reachable from root in print order, free-floating tokens first.
func Tokens(root ast.Vertex) []TokRef {
	var out []TokRef
	var rec func(n ast.Vertex)
	rec = func(n ast.Vertex) {
		for _, p := range Parts(n) {
			if p.Tok != nil {
				for _, ff := range p.Tok.FreeFloating {
					if ff != nil {
						out = append(out, TokRef{ff, n, p.Field, true})
					}
				}
				out = append(out, TokRef{p.Tok, n, p.Field, false})
			} else {
				rec(p.Node)
			}
		}
	}
	if !IsNil(root) {
		rec(root)
	}
	return out
}

// StructFP: kinds, roles, values — no tokens, no positions.
func StructFP(n ast.Vertex) string {
	b := &bytes.Buffer{}
	fp(n, b, false)
	return b.String()
}

// FullFP: kinds, roles, values, tokens (id, value, position, free-floating) and positions.
func FullFP(n ast.Vertex) string {
	b := &bytes.Buffer{}
	fp(n, b, true)
	return b.String()
}

func posStr(p *position.Position) string {
	if p == nil {
		return "@nil"
	}
	return fmt.Sprintf("@%d:%d-%d:%d", p.StartLine, p.StartPos, p.EndLine, p.EndPos)
}

func tokStr(b *bytes.Buffer, t *token.Token) {
	if t == nil {
		b.WriteString("nil")
		return
	}
	fmt.Fprintf(b, "<%d %q %s", int(t.ID), t.Value, posStr(t.Position))
	for _, ff := range t.FreeFloating {
		b.WriteString(" ff")
		tokStr(b, ff)
	}
	b.WriteString(">")
}

// StructFPSkip: StructFP without the list elements whose kind is in skip.
func StructFPSkip(n ast.Vertex, skip map[string]bool) string {
	b := &bytes.Buffer{}
	fpSkip = skip
	fp(n, b, false)
	fpSkip = nil
	return b.String()
}

var fpSkip map[string]bool

func fp(n ast.Vertex, b *bytes.Buffer, full bool) {
	if IsNil(n) {
		b.WriteString("nil")
		return
	}
	v, fs := Elem(n)
	b.WriteString(v.Type().Name())
	b.WriteString("{")
	for _, f := range fs {
		fv := v.Field(f.Idx)
		switch f.Kind {
		case FNode:
			if !fv.IsNil() {
				b.WriteString(f.Name + ":")
				fp(fv.Interface().(ast.Vertex), b, full)
				b.WriteString(";")
			}
		case FNodes:
			if fv.Len() > 0 {
				b.WriteString(f.Name + ":[")
				for j := 0; j < fv.Len(); j++ {
					if fv.Index(j).IsNil() {
						b.WriteString("nil,")
						continue
					}
					if fpSkip != nil && fpSkip[KindName(fv.Index(j).Interface().(ast.Vertex))] {
						continue
					}
					fp(fv.Index(j).Interface().(ast.Vertex), b, full)
					b.WriteString(",")
				}
				b.WriteString("];")
			}
		case FValue:
			fmt.Fprintf(b, "%s=%q;", f.Name, fv.Bytes())
		case FPos:
			if full {
				b.WriteString(posStr(fv.Interface().(*position.Position)) + ";")
			}
		case FTok:
			if full {
				if tk := fv.Interface().(*token.Token); tk != nil {
					b.WriteString(f.Name + ":")
					tokStr(b, tk)
					b.WriteString(";")
				}
			}
		case FToks:
			if full && fv.Len() > 0 {
				b.WriteString(f.Name + ":[")
				for j := 0; j < fv.Len(); j++ {
					tokStr(b, fv.Index(j).Interface().(*token.Token))
					b.WriteString(",")
				}
				b.WriteString("];")
			}
		case FOther:
			if full {
				fmt.Fprintf(b, "%s=%v;", f.Name, fv.Interface())
			}
		}
	}
	b.WriteString("}")
}

// Snapshot: every field of everything reachable, slice len and cap, pointer-graph shape (canonical
// numbering in visit order), byte contents.
func Snapshot(x interface{}) string {
	b := &bytes.Buffer{}
	snap(reflect.ValueOf(x), map[[2]uintptr]int{}, b)
	return b.String()
}

func snap(v reflect.Value, ids map[[2]uintptr]int, b *bytes.Buffer) {
	switch v.Kind() {
	case reflect.Ptr:
		if v.IsNil() {
			b.WriteString("nil;")
			return
		}
		k := [2]uintptr{v.Pointer(), 0}
		if id, ok := ids[k]; ok {
			fmt.Fprintf(b, "^%d;", id)
			return
		}
		ids[k] = len(ids)
		fmt.Fprintf(b, "&%d:", len(ids)-1)
		snap(v.Elem(), ids, b)
	case reflect.Interface:
		if v.IsNil() {
			b.WriteString("nil;")
			return
		}
		b.WriteString(v.Elem().Type().String() + ":")
		snap(v.Elem(), ids, b)
	case reflect.Struct:
		b.WriteString("{")
		for i := 0; i < v.NumField(); i++ {
			if v.Type().Field(i).PkgPath != "" {
				continue
			}
			b.WriteString(v.Type().Field(i).Name + "=")
			snap(v.Field(i), ids, b)
		}
		b.WriteString("}")
	case reflect.Slice:
		if v.IsNil() {
			b.WriteString("nilslice;")
			return
		}
		id := 0
		if v.Cap() > 0 {
			k := [2]uintptr{v.Pointer(), 1}
			var ok bool
			if id, ok = ids[k]; !ok {
				id = len(ids)
				ids[k] = id
			}
		}
		fmt.Fprintf(b, "[%d/%d@%d:", v.Len(), v.Cap(), id)
		if v.Type().Elem().Kind() == reflect.Uint8 {
			fmt.Fprintf(b, "%q", v.Bytes())
		} else {
			for i := 0; i < v.Len(); i++ {
				snap(v.Index(i), ids, b)
			}
		}
		b.WriteString("]")
	case reflect.Map:
		fmt.Fprintf(b, "map(%d);", v.Len())
	default:
		fmt.Fprintf(b, "%v;", v.Interface())
	}
}

// Diff walks two trees in parallel and returns the locus and details of the first difference ("" if none).
// full: tokens and positions are compared as well. The locus names kinds and fields only.
func Diff(a, b ast.Vertex, full bool) (locus, what string) {
	return diff(a, b, full, "root")
}

func diff(a, b ast.Vertex, full bool, path string) (string, string) {
	na, nb := IsNil(a), IsNil(b)
	if na || nb {
		if na != nb {
			return "child present on one side only at " + path, fmt.Sprintf("%s vs %s", KindName(a), KindName(b))
		}
		return "", ""
	}
	ka, kb := KindName(a), KindName(b)
	if ka != kb {
		return "node kind differs at " + path, ka + " vs " + kb
	}
	va, fs := Elem(a)
	vb, _ := Elem(b)
	for _, f := range fs {
		fa, fb := va.Field(f.Idx), vb.Field(f.Idx)
		at := ka + "." + f.Name
		switch f.Kind {
		case FNode:
			var ca, cb ast.Vertex
			if !fa.IsNil() {
				ca = fa.Interface().(ast.Vertex)
			}
			if !fb.IsNil() {
				cb = fb.Interface().(ast.Vertex)
			}
			if l, w := diff(ca, cb, full, at); l != "" {
				return l, w
			}
		case FNodes:
			if fa.Len() != fb.Len() {
				return "list length differs at " + at, fmt.Sprintf("%d vs %d", fa.Len(), fb.Len())
			}
			for j := 0; j < fa.Len(); j++ {
				var ca, cb ast.Vertex
				if !fa.Index(j).IsNil() {
					ca = fa.Index(j).Interface().(ast.Vertex)
				}
				if !fb.Index(j).IsNil() {
					cb = fb.Index(j).Interface().(ast.Vertex)
				}
				if l, w := diff(ca, cb, full, at); l != "" {
					return l, w
				}
			}
		case FValue:
			if !bytes.Equal(fa.Bytes(), fb.Bytes()) {
				return "value differs at " + at, fmt.Sprintf("%q vs %q", fa.Bytes(), fb.Bytes())
			}
		case FPos:
			if full {
				pa, pb := posStr(fa.Interface().(*position.Position)), posStr(fb.Interface().(*position.Position))
				if pa != pb {
					return "position differs at " + ka + " in " + path, pa + " vs " + pb
				}
			}
		case FTok:
			if full {
				ba, bb := &bytes.Buffer{}, &bytes.Buffer{}
				tokStr(ba, fa.Interface().(*token.Token))
				tokStr(bb, fb.Interface().(*token.Token))
				if ba.String() != bb.String() {
					return "token differs at " + at, ba.String() + " vs " + bb.String()
				}
			}
		case FToks:
			if full {
				ba, bb := &bytes.Buffer{}, &bytes.Buffer{}
				for j := 0; j < fa.Len(); j++ {
					tokStr(ba, fa.Index(j).Interface().(*token.Token))
				}
				for j := 0; j < fb.Len(); j++ {
					tokStr(bb, fb.Index(j).Interface().(*token.Token))
				}
				if ba.String() != bb.String() {
					return "token list differs at " + at, ba.String() + " vs " + bb.String()
				}
			}
		case FOther:
			if full && fmt.Sprint(fa.Interface()) != fmt.Sprint(fb.Interface()) {
				return "field differs at " + at, fmt.Sprintf("%v vs %v", fa.Interface(), fb.Interface())
			}
		}
	}
	return "", ""
}
