// Package lr: the LALR(1) automaton of the current php5.y / php7.y as printed by `goyacc -v`, a textbook
// LR driver over it (reference acceptor, no error recovery) and a CFG sentence generator.
package lr

import (
	"bufio"
	"fmt"
	"os"
	"regexp"
	"sort"
	"strconv"
	"strings"
)

type Rule struct {
	N   int
	LHS string
	RHS []string
}

func (r *Rule) String() string { return fmt.Sprintf("%d %s: %s", r.N, r.LHS, strings.Join(r.RHS, " ")) }

type Act struct {
	Kind byte // s r a e
	N    int
}

type Auto struct {
	Rules   map[int]*Rule
	RuleNum []int // sorted
	Actions []map[string]Act
	Default []Act
	Goto    []map[string]int
	IsNT    map[string]bool
	ByLHS   map[string][]*Rule
	Terms   []string // all terminals except error and $end, sorted
}

var itemRe = regexp.MustCompile(`^\t(\S+):  ?(.*)\.\s+\((\d+)\)$`)
var actRe = regexp.MustCompile(`^\t(\S+)  (shift|reduce|accept|error|goto)\s*(\d+)?`)

func norm(t string) string {
	if t == `'\"'` {
		return `'"'`
	}
	if t == `'\\'` {
		return `'\'`
	}
	return t
}

// Load parses y.output.
func Load(path string) (*Auto, error) {
	f, err := os.Open(path)
	if err != nil {
		return nil, err
	}
	defer f.Close()
	a := &Auto{Rules: map[int]*Rule{}, IsNT: map[string]bool{}, ByLHS: map[string][]*Rule{}}
	sc := bufio.NewScanner(f)
	sc.Buffer(make([]byte, 1<<20), 1<<20)
	cur := -1
	for sc.Scan() {
		l := sc.Text()
		if strings.HasPrefix(l, "state ") {
			cur, _ = strconv.Atoi(strings.TrimSpace(l[6:]))
			for len(a.Actions) <= cur {
				a.Actions = append(a.Actions, map[string]Act{})
				a.Default = append(a.Default, Act{Kind: 'e'})
				a.Goto = append(a.Goto, map[string]int{})
			}
			continue
		}
		if cur < 0 {
			continue
		}
		if m := itemRe.FindStringSubmatch(l); m != nil {
			n, _ := strconv.Atoi(m[3])
			var rhs []string
			for _, s := range strings.Fields(m[2]) {
				rhs = append(rhs, norm(s))
			}
			if _, ok := a.Rules[n]; !ok {
				a.Rules[n] = &Rule{N: n, LHS: m[1], RHS: rhs}
			}
			a.IsNT[m[1]] = true
			continue
		}
		if m := actRe.FindStringSubmatch(l); m != nil {
			n, _ := strconv.Atoi(m[3])
			var act Act
			switch m[2] {
			case "shift":
				act = Act{'s', n}
			case "reduce":
				act = Act{'r', n}
			case "accept":
				act = Act{'a', 0}
			case "error":
				act = Act{'e', 0}
			case "goto":
				a.Goto[cur][m[1]] = n
				continue
			}
			t := norm(m[1])
			if t == "." {
				a.Default[cur] = act
			} else {
				a.Actions[cur][t] = act
			}
		}
	}
	if len(a.Actions) < 10 || len(a.Rules) < 10 {
		return nil, fmt.Errorf("%s: no automaton found", path)
	}
	for n := range a.Rules {
		a.RuleNum = append(a.RuleNum, n)
	}
	sort.Ints(a.RuleNum)
	for _, n := range a.RuleNum {
		r := a.Rules[n]
		a.ByLHS[r.LHS] = append(a.ByLHS[r.LHS], r)
	}
	ts := map[string]bool{}
	for s := range a.Actions {
		for t := range a.Actions[s] {
			if t != "error" && t != "$end" {
				ts[t] = true
			}
		}
	}
	for t := range ts {
		a.Terms = append(a.Terms, t)
	}
	sort.Strings(a.Terms)
	return a, nil
}

// Trace of one driver run.
type Trace struct {
	Reduced []int        // rule numbers in reduction order
	Cells   [][2]int32   // (state, terminal index) cells consulted — only if WantCells
	ErrAt   int          // index of the token on which the driver stopped (rejections)
	ErrState int
	WantCells bool
}

// Run: true iff the token string (without $end) is a sentence of the grammar.
func (a *Auto) Run(toks []string, tr *Trace) bool {
	stack := make([]int, 1, 64)
	i := 0
	n := len(toks)
	for steps := 0; steps < 1000000; steps++ {
		s := stack[len(stack)-1]
		t := "$end"
		if i < n {
			t = toks[i]
		}
		act, ok := a.Actions[s][t]
		if !ok {
			act = a.Default[s]
		}
		switch act.Kind {
		case 's':
			stack = append(stack, act.N)
			i++
		case 'r':
			r := a.Rules[act.N]
			if tr != nil {
				tr.Reduced = append(tr.Reduced, act.N)
			}
			stack = stack[:len(stack)-len(r.RHS)]
			g, ok := a.Goto[stack[len(stack)-1]][r.LHS]
			if !ok {
				panic("lr: no goto on " + r.LHS)
			}
			stack = append(stack, g)
		case 'a':
			return true
		default:
			if tr != nil {
				tr.ErrAt = i
				tr.ErrState = s
			}
			return false
		}
	}
	panic("lr: driver does not terminate")
}

// StateAfter runs the driver over toks and returns the stack (nil if rejected before the end). Pending
// default reductions are not performed.
func (a *Auto) StateAfter(toks []string) []int {
	stack := []int{0}
	for _, t := range toks {
		for {
			s := stack[len(stack)-1]
			act, ok := a.Actions[s][t]
			if !ok {
				act = a.Default[s]
			}
			if act.Kind == 's' {
				stack = append(stack, act.N)
				break
			}
			if act.Kind != 'r' {
				return nil
			}
			r := a.Rules[act.N]
			stack = stack[:len(stack)-len(r.RHS)]
			stack = append(stack, a.Goto[stack[len(stack)-1]][r.LHS])
		}
	}
	return stack
}

// ---------------------------------------------------------------------------------------------
// grammar analysis

func (a *Auto) HasErr(r *Rule) bool {
	for _, s := range r.RHS {
		if s == "error" {
			return true
		}
	}
	return false
}

// Cost of a yield: short sentences, preferring plain variables as operands and avoiding one-token
// expressions with quirky syntax of their own.
func Cost(y []string) int {
	c := 0
	for _, t := range y {
		switch t {
		case "T_VARIABLE":
			c += 9
		case "T_INLINE_HTML", "T_YIELD", "T_YIELD_FROM", "T_EXIT", "T_HALT_COMPILER":
			c += 60
		case "T_STATIC", "T_NAMESPACE":
			c += 12
		default:
			c += 10
		}
	}
	return c
}

type Ctx struct{ Pre, Suf []string }

type Gram struct {
	A      *Auto
	MinY   map[string][]string // cheapest yield
	MinNE  map[string][]string // cheapest non-empty yield
	Ctxs   map[string]Ctx      // cheapest start ⇒* Pre A Suf
	Access map[int][]string    // cheapest token string leading into each state
}

func (a *Auto) minYields(nonEmpty bool, base map[string][]string) map[string][]string {
	minY := map[string][]string{}
	for changed := true; changed; {
		changed = false
		for _, n := range a.RuleNum {
			r := a.Rules[n]
			if a.HasErr(r) {
				continue
			}
			// for non-empty yields: each alternative = all symbols minimal (base) except that at least
			// one symbol yields non-empty: choose the cheapest symbol to force.
			var cands [][]string
			if !nonEmpty {
				var y []string
				ok := true
				for _, s := range r.RHS {
					if a.IsNT[s] {
						m, has := minY[s]
						if !has {
							ok = false
							break
						}
						y = append(y, m...)
					} else {
						y = append(y, s)
					}
				}
				if ok {
					cands = append(cands, y)
				}
			} else {
				// plain minimal expansion if it is already non-empty
				var y []string
				ok := true
				for _, s := range r.RHS {
					if a.IsNT[s] {
						m, has := base[s]
						if !has {
							ok = false
							break
						}
						y = append(y, m...)
					} else {
						y = append(y, s)
					}
				}
				if ok && len(y) > 0 {
					cands = append(cands, y)
				} else if ok {
					for k, s := range r.RHS {
						if !a.IsNT[s] {
							continue
						}
						ne, has := minY[s]
						if !has {
							continue
						}
						var y2 []string
						for k2, s2 := range r.RHS {
							if k2 == k {
								y2 = append(y2, ne...)
							} else {
								y2 = append(y2, base[s2]...)
							}
						}
						cands = append(cands, y2)
					}
				}
			}
			for _, y := range cands {
				if old, ok := minY[r.LHS]; !ok || Cost(y) < Cost(old) {
					minY[r.LHS] = append([]string{}, y...)
					changed = true
				}
			}
		}
	}
	return minY
}

func (a *Auto) Analyse() *Gram {
	g := &Gram{A: a}
	g.MinY = a.minYields(false, nil)
	g.MinNE = a.minYields(true, g.MinY)
	g.Ctxs = map[string]Ctx{"start": {}}
	if _, ok := a.IsNT["start"]; !ok {
		// start symbol = RHS[0] of rule 0 ($accept)
		if r, ok := a.Rules[0]; ok && len(r.RHS) > 0 {
			g.Ctxs = map[string]Ctx{r.RHS[0]: {}}
		}
	}
	for changed := true; changed; {
		changed = false
		for _, n := range a.RuleNum {
			r := a.Rules[n]
			if a.HasErr(r) || r.LHS == "$accept" {
				continue
			}
			c, ok := g.Ctxs[r.LHS]
			if !ok {
				continue
			}
			for i, s := range r.RHS {
				if !a.IsNT[s] {
					continue
				}
				pre := append(append([]string{}, c.Pre...), g.Expand(r.RHS[:i])...)
				suf := append(g.Expand(r.RHS[i+1:]), c.Suf...)
				if old, ok := g.Ctxs[s]; !ok || Cost(pre)+Cost(suf) < Cost(old.Pre)+Cost(old.Suf) {
					g.Ctxs[s] = Ctx{pre, suf}
					changed = true
				}
			}
		}
	}
	g.Access = map[int][]string{0: {}}
	for changed := true; changed; {
		changed = false
		for s := range a.Actions {
			base, ok := g.Access[s]
			if !ok {
				continue
			}
			var ts []string
			for t := range a.Actions[s] {
				ts = append(ts, t)
			}
			sort.Strings(ts)
			for _, t := range ts {
				act := a.Actions[s][t]
				if act.Kind == 's' && t != "error" {
					cand := append(append([]string{}, base...), t)
					if old, ok := g.Access[act.N]; !ok || Cost(cand) < Cost(old) {
						g.Access[act.N] = cand
						changed = true
					}
				}
			}
			var nts []string
			for nt := range a.Goto[s] {
				nts = append(nts, nt)
			}
			sort.Strings(nts)
			for _, nt := range nts {
				to := a.Goto[s][nt]
				my, ok := g.MinY[nt]
				if !ok {
					continue
				}
				cand := append(append([]string{}, base...), my...)
				if old, ok := g.Access[to]; !ok || Cost(cand) < Cost(old) {
					g.Access[to] = cand
					changed = true
				}
			}
		}
	}
	return g
}

// Expand replaces every nonterminal by its cheapest yield.
func (g *Gram) Expand(syms []string) []string {
	var y []string
	for _, s := range syms {
		if g.A.IsNT[s] {
			y = append(y, g.MinY[s]...)
		} else {
			y = append(y, s)
		}
	}
	return y
}

type Sentence struct {
	Toks []string
	Why  string
	Rule int // the rule the sentence was built for
}

// Level of the corpus: 1 = one sentence per rule; 2 = + every (rule, position, child rule);
// 3 = + all empty/non-empty combinations of nullable RHS symbols; 4 = + 3-paths; 5 = + pairs of positions; 6 = + sibling lists of different lengths.
func (g *Gram) Sentences(level int) []Sentence {
	a := g.A
	var out []Sentence
	seen := map[string]bool{}
	add := func(t []string, rule int, why string) {
		k := strings.Join(t, " ")
		if seen[k] || len(t) == 0 {
			return
		}
		seen[k] = true
		out = append(out, Sentence{append([]string{}, t...), why, rule})
	}
	wrap := func(c Ctx, mid []string) []string {
		t := append([]string{}, c.Pre...)
		t = append(t, mid...)
		return append(t, c.Suf...)
	}
	usable := func(r *Rule) bool {
		if a.HasErr(r) || r.LHS == "$accept" {
			return false
		}
		for _, s := range r.RHS {
			if a.IsNT[s] {
				if _, ok := g.MinY[s]; !ok {
					return false
				}
			}
		}
		return true
	}
	for _, n := range a.RuleNum {
		p := a.Rules[n]
		c, ok := g.Ctxs[p.LHS]
		if !ok || !usable(p) {
			continue
		}
		add(wrap(c, g.Expand(p.RHS)), n, fmt.Sprintf("rule %d", n))
	}
	if level >= 2 {
		for _, n := range a.RuleNum {
			p := a.Rules[n]
			c, ok := g.Ctxs[p.LHS]
			if !ok || !usable(p) {
				continue
			}
			for i, s := range p.RHS {
				if !a.IsNT[s] {
					continue
				}
				for _, q := range a.ByLHS[s] {
					if !usable(q) {
						continue
					}
					mid := append(g.Expand(p.RHS[:i]), g.Expand(q.RHS)...)
					mid = append(mid, g.Expand(p.RHS[i+1:])...)
					add(wrap(c, mid), q.N, fmt.Sprintf("rule %d pos %d child %d", n, i, q.N))
				}
			}
		}
	}
	if level >= 3 {
		for _, n := range a.RuleNum {
			p := a.Rules[n]
			c, ok := g.Ctxs[p.LHS]
			if !ok || !usable(p) {
				continue
			}
			var nullable []int
			for i, s := range p.RHS {
				if a.IsNT[s] && len(g.MinY[s]) == 0 {
					if _, ok := g.MinNE[s]; ok {
						nullable = append(nullable, i)
					}
				}
			}
			if len(nullable) == 0 || len(nullable) > 8 {
				continue
			}
			for mask := 1; mask < 1<<uint(len(nullable)); mask++ {
				var mid []string
				for i, s := range p.RHS {
					forced := false
					for k, ni := range nullable {
						if ni == i && mask&(1<<uint(k)) != 0 {
							forced = true
						}
					}
					switch {
					case forced:
						mid = append(mid, g.MinNE[s]...)
					case a.IsNT[s]:
						mid = append(mid, g.MinY[s]...)
					default:
						mid = append(mid, s)
					}
				}
				add(wrap(c, mid), n, fmt.Sprintf("rule %d nullable-mask %b", n, mask))
			}
		}
	}
	if level >= 4 {
		for _, n := range a.RuleNum {
			p := a.Rules[n]
			c, ok := g.Ctxs[p.LHS]
			if !ok || !usable(p) {
				continue
			}
			for i, s := range p.RHS {
				if !a.IsNT[s] {
					continue
				}
				for _, q := range a.ByLHS[s] {
					if !usable(q) {
						continue
					}
					for j, s2 := range q.RHS {
						if !a.IsNT[s2] {
							continue
						}
						for _, r3 := range a.ByLHS[s2] {
							if !usable(r3) {
								continue
							}
							mid := g.Expand(p.RHS[:i])
							mid = append(mid, g.Expand(q.RHS[:j])...)
							mid = append(mid, g.Expand(r3.RHS)...)
							mid = append(mid, g.Expand(q.RHS[j+1:])...)
							mid = append(mid, g.Expand(p.RHS[i+1:])...)
							add(wrap(c, mid), r3.N, fmt.Sprintf("rule %d pos %d child %d pos %d child %d", n, i, q.N, j, r3.N))
						}
					}
				}
			}
		}
	}
	if level >= 5 {
		// pairs: every rule with two of its right-hand-side nonterminals expanded by every pair of their
		// alternatives at once (catches actions that are only wrong for a combination, e.g. `trait` +
		// `implements`); positions where both symbols have many alternatives (expr x expr) are left to the
		// operator enumeration of C03.
		for _, n := range a.RuleNum {
			p := a.Rules[n]
			c, ok := g.Ctxs[p.LHS]
			if !ok || !usable(p) {
				continue
			}
			for i, si := range p.RHS {
				if !a.IsNT[si] {
					continue
				}
				for j := i + 1; j < len(p.RHS); j++ {
					sj := p.RHS[j]
					if !a.IsNT[sj] {
						continue
					}
					if len(a.ByLHS[si]) > 12 && len(a.ByLHS[sj]) > 12 {
						continue
					}
					for _, qi := range a.ByLHS[si] {
						if !usable(qi) {
							continue
						}
						for _, qj := range a.ByLHS[sj] {
							if !usable(qj) {
								continue
							}
							mid := g.Expand(p.RHS[:i])
							mid = append(mid, g.Expand(qi.RHS)...)
							mid = append(mid, g.Expand(p.RHS[i+1:j])...)
							mid = append(mid, g.Expand(qj.RHS)...)
							mid = append(mid, g.Expand(p.RHS[j+1:])...)
							add(wrap(c, mid), n, fmt.Sprintf("rule %d pair pos %d child %d pos %d child %d", n, i, qi.N, j, qj.N))
						}
					}
				}
			}
		}
	}
	if level >= 6 {
		// sibling lists of different lengths: every rule with two right-hand-side positions from which a list
		// nonterminal (L: L sep X | X) is reachable, the two lists expanded to (1,2) (2,1) (2,3) (3,1) (1,3)
		// elements; and every single such position with 3 elements. Catches separator lists stored or printed
		// under the wrong sibling, which agree whenever both lists have the same length.
		for _, n := range a.RuleNum {
			p := a.Rules[n]
			c, ok := g.Ctxs[p.LHS]
			if !ok || !usable(p) {
				continue
			}
			var pos []int
			for i, s := range p.RHS {
				if a.IsNT[s] && g.expandList(s, 2, 3) != nil {
					pos = append(pos, i)
				}
			}
			build := func(ex map[int]int) []string {
				var mid []string
				for i, s := range p.RHS {
					if k, ok := ex[i]; ok {
						mid = append(mid, g.expandList(s, k, 3)...)
					} else {
						mid = append(mid, g.Expand([]string{s})...)
					}
				}
				return mid
			}
			for _, i := range pos {
				add(wrap(c, build(map[int]int{i: 3})), n, fmt.Sprintf("rule %d list at pos %d x3", n, i))
			}
			for x := 0; x < len(pos); x++ {
				for y := x + 1; y < len(pos); y++ {
					for _, ab := range [][2]int{{1, 2}, {2, 1}, {2, 3}, {3, 1}, {1, 3}} {
						add(wrap(c, build(map[int]int{pos[x]: ab[0], pos[y]: ab[1]})), n,
							fmt.Sprintf("rule %d lists at pos %d x%d and pos %d x%d", n, pos[x], ab[0], pos[y], ab[1]))
					}
				}
			}
		}
	}
	return out
}

// listRule: is nt a list nonterminal?  L: L [sep] X  |  X   (returns the recursive and the base rule)
func (g *Gram) listRule(nt string) (rec, base *Rule) {
	for _, r := range g.A.ByLHS[nt] {
		if g.A.HasErr(r) {
			continue
		}
		if len(r.RHS) >= 2 && r.RHS[0] == nt {
			if rec == nil || len(r.RHS) < len(rec.RHS) {
				rec = r
			}
		}
	}
	if rec == nil {
		return nil, nil
	}
	elem := rec.RHS[len(rec.RHS)-1]
	for _, r := range g.A.ByLHS[nt] {
		if len(r.RHS) == 1 && r.RHS[0] == elem {
			base = r
		}
	}
	if base == nil {
		return nil, nil
	}
	return rec, base
}

// expandList: the yield of sym in which the first list nonterminal reachable from sym (through at most
// depth rule applications, everything else minimal) has k elements; nil if no list is reachable.
func (g *Gram) expandList(sym string, k, depth int) []string {
	if !g.A.IsNT[sym] {
		return nil
	}
	if rec, base := g.listRule(sym); rec != nil {
		// L_k = X (sep X)^(k-1)
		y := g.Expand(base.RHS)
		for i := 1; i < k; i++ {
			y = append(y, g.Expand(rec.RHS[1:])...)
		}
		return y
	}
	if depth == 0 {
		return nil
	}
	var best []string
	for _, r := range g.A.ByLHS[sym] {
		if g.A.HasErr(r) {
			continue
		}
		usable := true
		for _, s := range r.RHS {
			if g.A.IsNT[s] {
				if _, ok := g.MinY[s]; !ok {
					usable = false
				}
			}
		}
		if !usable {
			continue
		}
		for i, s := range r.RHS {
			sub := g.expandList(s, k, depth-1)
			if sub == nil {
				continue
			}
			y := append(g.Expand(r.RHS[:i]), sub...)
			y = append(y, g.Expand(r.RHS[i+1:])...)
			if best == nil || Cost(y) < Cost(best) {
				best = y
			}
			break
		}
	}
	return best
}

// Unbalanced lists the rules whose right-hand side is not bracket-balanced (the C06 lemma needs none).
func (a *Auto) Unbalanced() []int {
	var bad []int
	open := map[string]string{"'('": "'('", "'['": "'['", "'{'": "'{'", "T_CURLY_OPEN": "'{'", "T_DOLLAR_OPEN_CURLY_BRACES": "'{'"}
	closeOf := map[string]string{"')'": "'('", "']'": "'['", "'}'": "'{'"}
	for _, n := range a.RuleNum {
		var st []string
		ok := true
		for _, s := range a.Rules[n].RHS {
			if o, is := open[s]; is {
				st = append(st, o)
			} else if c, is := closeOf[s]; is {
				if len(st) == 0 || st[len(st)-1] != c {
					ok = false
					break
				}
				st = st[:len(st)-1]
			}
		}
		if !ok || len(st) != 0 {
			bad = append(bad, n)
		}
	}
	return bad
}
