// Package ebytes: small-scope input exploration — all strings of up to n symbols over a hand-chosen
// alphabet of bytes and fragments, from each of a set of start contexts (one per scanner machine).
package ebytes

// Sigma: every byte literal that occurs in scanner.rl plus one representative of each remaining class,
// then the multi-byte fragments that switch scanner machines.
var Sigma = []string{
	"\t", "\v", " ", "\r", "\n", "#", "!", "<", "?", ">", "=", "p", "h", "0", "1", "8", "_", ".", "x", "b", "e", "a", "f", "g", "E", "B",
	"+", "-", "'", "\"", "\\", "$", "{", "}", "[", "]", "(", ")", ";", ":", ",", "|", "/", "^", "&", "*", "%", "~", "@", "`", "\x00", "\x7f", "\x80", "\xff", "A",
	"<?php ", "<?", "<?=", "?>", "<<<A\n", "<<<'A'\n", "A;\n", "->", "::", "{$", "${", "__halt_compiler",
	// number forms that take their own paths in the scanner and in the string-offset grammar actions
	"0x1F", "0b11", "99999999999999999999",
}

// Core: the symbols that reach every scanner machine and every look-ahead helper (deeper bound).
var Core = []string{
	"<", "?", ">", "\"", "'", "`", "$", "{", "}", "[", "]", "a", "0", "\\", "\r", "\n", " ", "-", "#", "/", "*", "A", ";", "(", ")",
	"<?php ", "?>", "<<<A\n",
}

// Contexts: one prefix per scanner machine / lexical situation.
var Contexts = []string{
	"", "<?php ", "<?php \"", "<?php `", "<?php <<<A\n", "<?php <<<'A'\n", "<?php $a->", "<?php \"$a[", "<?php \"${", "<?php \"{$",
	"<?php __halt_compiler", "<?php //", "<?php /*", "<?php '", "#!x\n",
}

// Count: number of strings of exactly n symbols over an alphabet of k symbols.
func Count(k, n int) int {
	t := 1
	for i := 0; i < n; i++ {
		t *= k
	}
	return t
}

// Nth: the idx-th string of exactly n symbols (mixed radix, least significant symbol first).
func Nth(alpha []string, n, idx int) string {
	var buf [64]byte
	b := buf[:0]
	for i := 0; i < n; i++ {
		b = append(b, alpha[idx%len(alpha)]...)
		idx /= len(alpha)
	}
	return string(b)
}
