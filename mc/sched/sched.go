// Package sched: a cooperative scheduler and a bounded-preemption depth-first explorer over the schedules
// of a few goroutines that yield at explicit points.
//
// Exactly one thread runs at a time. A thread calls Point() at every yield point; the scheduler then
// picks the next thread to run. A schedule is the list of choices (index into the enabled list in
// canonical order: the running thread first if it is still enabled, then ascending ids).
package sched

import "fmt"

type ev struct {
	id   int
	done bool
}

type thread struct {
	id     int
	resume chan struct{}
	done   bool
}

type Sched struct {
	threads []*thread
	cur     int
	evc     chan ev
	Points  int // points reached in this run
	Limit   int // abort threads once Points exceeds it (0: none)
}

// Abort is the panic value used to unwind a thread when the run exceeded its point limit.
type Abort struct{}

// Point yields to the scheduler (called by the running thread).
func (s *Sched) Point() {
	s.Points++
	if s.Limit > 0 && s.Points > s.Limit {
		panic(Abort{})
	}
	t := s.threads[s.cur]
	s.evc <- ev{t.id, false}
	<-t.resume
}

// Run is one execution.
type Run struct {
	Choices  []int
	Enabled  [][]int
	CurStill []bool // the previously running thread was still enabled at this decision
}

// Exec runs bodies[i](s) as thread i under the schedule prefix (then choice 0 everywhere). A prefix that
// cannot be followed (choice out of range) is a hard error: the execution is not deterministic.
func Exec(bodies []func(s *Sched), prefix []int, limit int) (*Run, *Sched) {
	s := &Sched{evc: make(chan ev), Limit: limit}
	for i := range bodies {
		s.threads = append(s.threads, &thread{id: i, resume: make(chan struct{})})
	}
	for i, b := range bodies {
		t, b := s.threads[i], b
		go func() {
			<-t.resume
			func() {
				defer func() {
					if r := recover(); r != nil {
						if _, ok := r.(Abort); !ok {
							panic(r) // bodies must recover their own panics
						}
					}
				}()
				b(s)
			}()
			s.evc <- ev{t.id, true}
		}()
	}
	res := &Run{}
	running := -1
	for step := 0; ; step++ {
		var en []int
		still := false
		if running >= 0 && !s.threads[running].done {
			en = append(en, running)
			still = true
		}
		for _, t := range s.threads {
			if !t.done && t.id != running {
				en = append(en, t.id)
			}
		}
		if len(en) == 0 {
			break
		}
		c := 0
		if step < len(prefix) {
			c = prefix[step]
			if c >= len(en) {
				panic(fmt.Sprintf("sched: divergent replay at step %d: choice %d of %d enabled", step, c, len(en)))
			}
		}
		res.Choices = append(res.Choices, c)
		res.Enabled = append(res.Enabled, en)
		res.CurStill = append(res.CurStill, still)
		running = en[c]
		s.cur = running
		s.threads[running].resume <- struct{}{}
		e := <-s.evc
		if e.done {
			s.threads[e.id].done = true
		}
	}
	return res, s
}

// Explore enumerates every schedule with at most bound preemptions, depth first. visit is called once per
// execution; if it returns false the exploration stops. Sharding: own(key) decides whether this process
// explores the subtree hanging off one deviation from the default schedule. A deviation that costs no
// preemption (nothing was running: the first decision, or the running thread had just finished) keeps the
// whole budget, so its subtree is as large as the whole tree: such subtrees are split again the same way
// instead of being handed to one process.
func Explore(bodies func() []func(s *Sched), bound, limit int, own func(key uint64) bool, visit func(r *Run, s *Sched) bool) (schedules int) {
	stop := false
	var rec func(prefix []int, split bool, key uint64)
	rec = func(prefix []int, split bool, key uint64) {
		if stop {
			return
		}
		x, s := Exec(bodies(), prefix, limit)
		if !split || own(key) {
			schedules++
			if !visit(x, s) {
				stop = true
				return
			}
		}
		pre := 0
		cost := make([]int, len(x.Choices))
		for i := range x.Choices {
			cost[i] = pre
			if x.CurStill[i] && x.Choices[i] != 0 {
				pre++
			}
		}
		for i := len(prefix); i < len(x.Choices); i++ {
			for alt := 1; alt < len(x.Enabled[i]); alt++ {
				cc := cost[i]
				if x.CurStill[i] {
					cc++ // switching away from a runnable thread is a preemption
				}
				if cc > bound {
					continue
				}
				np := append(append([]int{}, x.Choices[:i]...), alt)
				k := key*1000003 + uint64(i+1)*31 + uint64(alt)
				if split {
					if !x.CurStill[i] {
						rec(np, true, k) // free deviation: split its subtree as well
					} else if own(k) {
						rec(np, false, k)
					}
				} else {
					rec(np, false, k)
				}
				if stop {
					return
				}
			}
		}
	}
	rec(nil, true, 1)
	return
}
