// Package nsm — M-ns: a reference implementation of PHP's compile-time name resolution rules
// (PHP manual, "Namespaces: name resolution rules") and a generator of programs with the expected
// resolution of every name in them.
package nsm

import "strings"

type Scope struct {
	NS    string
	Class map[string]string // lower-case alias -> FQN
	Fn    map[string]string // lower-case alias -> FQN
	Const map[string]string // exact alias -> FQN
}

func NewScope(ns string) *Scope {
	return &Scope{NS: ns, Class: map[string]string{}, Fn: map[string]string{}, Const: map[string]string{}}
}

func (s *Scope) Qualify(n string) string {
	if s.NS == "" {
		return n
	}
	return s.NS + `\` + n
}

var SpecialClass = map[string]bool{"self": true, "parent": true, "static": true}
var SpecialType = map[string]bool{"int": true, "float": true, "bool": true, "string": true, "void": true, "iterable": true, "object": true, "self": true, "parent": true, "array": true, "callable": true}
var SpecialConst = map[string]bool{"true": true, "false": true, "null": true}

// lower folds ASCII letters only: PHP compares class, function and namespace names byte-wise after an ASCII-only,
// locale-independent lower-casing (zend_str_tolower), so `BÄR` is not `Bär` and two different invalid UTF-8 bytes never meet.
func lower(s string) string {
	b := []byte(s)
	for i, c := range b {
		if c >= 'A' && c <= 'Z' {
			b[i] = c + 32
		}
	}
	return string(b)
}

// Resolve: kind ∈ class, type, function, const. special=true: the name is left unqualified.
func (s *Scope) Resolve(name, kind string) (fqn string, special bool) {
	if strings.HasPrefix(name, `\`) {
		return name[1:], false // fully qualified: as written
	}
	if strings.HasPrefix(lower(name), `namespace\`) {
		return s.Qualify(name[len(`namespace\`):]), false // relative: current namespace
	}
	parts := strings.Split(name, `\`)
	if len(parts) == 1 {
		l := lower(name)
		switch kind {
		case "class":
			if SpecialClass[l] {
				return l, true
			}
		case "type":
			if SpecialType[l] {
				return l, true
			}
		case "const":
			if SpecialConst[l] {
				return l, true
			}
		}
		switch kind {
		case "class", "type":
			if f, ok := s.Class[l]; ok {
				return f, false
			}
		case "function":
			if f, ok := s.Fn[l]; ok {
				return f, false
			}
		case "const":
			if f, ok := s.Const[name]; ok {
				return f, false
			}
		}
		return s.Qualify(name), false
	}
	// qualified: the first segment goes through the class/namespace import table, whatever the kind
	if f, ok := s.Class[lower(parts[0])]; ok {
		return f + `\` + strings.Join(parts[1:], `\`), false
	}
	return s.Qualify(name), false
}

// Expect: the name (or declaration) starting at byte offset Off resolves to FQN.
type Expect struct {
	Off     int
	FQN     string
	Special bool
	What    string // "<kind> <name as written>" or "decl <keyword>"
}

type Prog struct {
	B   strings.Builder
	Exp []Expect
	Sc  *Scope
}

func (p *Prog) W(s string) { p.B.WriteString(s) }
func (p *Prog) Ref(name, kind string) {
	f, sp := p.Sc.Resolve(name, kind)
	p.Exp = append(p.Exp, Expect{p.B.Len(), f, sp, kind + " " + name})
	p.W(name)
}

// Decl writes `kw name tail`; the declaration node (which starts at the keyword) gets the qualified name.
func (p *Prog) Decl(kw, name, tail string) {
	p.Exp = append(p.Exp, Expect{p.B.Len(), p.Sc.Qualify(name), false, "decl " + kw})
	p.W(kw + " " + name + tail)
}

type Import struct {
	Text string
	Add  func(s *Scope)
	PHP7 bool
}

var Imports = []Import{
	{"", func(s *Scope) {}, false},
	{`use X\Foo;`, func(s *Scope) { s.Class["foo"] = `X\Foo` }, false},
	{`use X\Y as Foo;`, func(s *Scope) { s.Class["foo"] = `X\Y` }, false},
	{`use X\Y as FOO;`, func(s *Scope) { s.Class["foo"] = `X\Y` }, false},
	{`use \X\Foo;`, func(s *Scope) { s.Class["foo"] = `X\Foo` }, false},
	{`use Foo;`, func(s *Scope) { s.Class["foo"] = `Foo` }, false},
	{`use function X\foo;`, func(s *Scope) { s.Fn["foo"] = `X\foo` }, false},
	{`use function X\y as Foo;`, func(s *Scope) { s.Fn["foo"] = `X\y` }, false},
	{`use const X\Foo;`, func(s *Scope) { s.Const["Foo"] = `X\Foo` }, false},
	{`use const X\Y as foo;`, func(s *Scope) { s.Const["foo"] = `X\Y` }, false},
	{`use X\{Foo, Z as W};`, func(s *Scope) { s.Class["foo"] = `X\Foo`; s.Class["w"] = `X\Z` }, true},
	{`use X\{Q\Foo};`, func(s *Scope) { s.Class["foo"] = `X\Q\Foo` }, true},
	{`use \X\{Foo};`, func(s *Scope) { s.Class["foo"] = `X\Foo` }, true},
	{`use function X\{foo, z as w};`, func(s *Scope) { s.Fn["foo"] = `X\foo`; s.Fn["w"] = `X\z` }, true},
	{`use const X\{Foo, Y as Bar};`, func(s *Scope) { s.Const["Foo"] = `X\Foo`; s.Const["Bar"] = `X\Y` }, true},
	{`use X\{function foo, const Foo, Foo};`, func(s *Scope) { s.Fn["foo"] = `X\foo`; s.Const["Foo"] = `X\Foo`; s.Class["foo"] = `X\Foo` }, true},
	{`use X\A, X\B as Foo;`, func(s *Scope) { s.Class["a"] = `X\A`; s.Class["foo"] = `X\B` }, false},
	{`use function X\a, X\b as foo;`, func(s *Scope) { s.Fn["a"] = `X\a`; s.Fn["foo"] = `X\b` }, false},
}

// ImportVariants: names with bytes >= 0x80 (valid and invalid UTF-8); keywords are case-insensitive; a leading backslash in a function / constant import
var ImportVariants = []Import{
	// group uses with prefixes of 3 and 5 segments and 3 items (lists built by appending have spare capacity at these lengths)
	{`use P1\P2\P3\{Foo, Second, Third as Tre};`, func(s *Scope) { s.Class["foo"] = `P1\P2\P3\Foo`; s.Class["second"] = `P1\P2\P3\Second`; s.Class["tre"] = `P1\P2\P3\Third` }, true},
	{`use function P1\P2\P3\P4\P5\{foo, second, third};`, func(s *Scope) {
		s.Fn["foo"] = `P1\P2\P3\P4\P5\foo`
		s.Fn["second"] = `P1\P2\P3\P4\P5\second`
		s.Fn["third"] = `P1\P2\P3\P4\P5\third`
	}, true},
	{`use P1\P2\P3\{const Foo, Q\R\Foo, function foo};`, func(s *Scope) { s.Const["Foo"] = `P1\P2\P3\Foo`; s.Class["foo"] = `P1\P2\P3\Q\R\Foo`; s.Fn["foo"] = `P1\P2\P3\foo` }, true},
	{"use X\\B\u00e4r;", func(s *Scope) { s.Class["b\u00e4r"] = "X\\B\u00e4r" }, false},
	{"use X\\Y as B\xff;", func(s *Scope) { s.Class["b\xff"] = `X\Y` }, false},
	{"use function X\\B\u00e4r;", func(s *Scope) { s.Fn["b\u00e4r"] = "X\\B\u00e4r" }, false},
	{`use FUNCTION X\foo;`, func(s *Scope) { s.Fn["foo"] = `X\foo` }, false},
	{`USE Function X\y AS Foo;`, func(s *Scope) { s.Fn["foo"] = `X\y` }, false},
	{`use CONST X\Foo;`, func(s *Scope) { s.Const["Foo"] = `X\Foo` }, false},
	{`Use Const X\Y As foo;`, func(s *Scope) { s.Const["foo"] = `X\Y` }, false},
	{`use function \X\foo;`, func(s *Scope) { s.Fn["foo"] = `X\foo` }, false},
	{`use const \X\Foo;`, func(s *Scope) { s.Const["Foo"] = `X\Foo` }, false},
	{`use FUNCTION X\{foo, z AS w};`, func(s *Scope) { s.Fn["foo"] = `X\foo`; s.Fn["w"] = `X\z` }, true},
	{`use Const X\{Foo, Y as Bar};`, func(s *Scope) { s.Const["Foo"] = `X\Foo`; s.Const["Bar"] = `X\Y` }, true},
	{`use X\{FUNCTION foo, CONST Foo, Foo};`, func(s *Scope) { s.Fn["foo"] = `X\foo`; s.Const["Foo"] = `X\Foo`; s.Class["foo"] = `X\Foo` }, true},
	{`use CONST X\A, X\B as Foo;`, func(s *Scope) { s.Const["A"] = `X\A`; s.Const["Foo"] = `X\B` }, false},
}

type Position struct {
	Name string
	Kind string
	PHP7 bool
	Emit func(p *Prog, n string)
}

var Positions = []Position{
	{"extends", "class", false, func(p *Prog, n string) { p.Decl("class", "C1", " extends "); p.Ref(n, "class"); p.W(" {}") }},
	{"implements", "class", false, func(p *Prog, n string) {
		p.Decl("class", "C1", " implements ")
		p.Ref("I0", "class")
		p.W(", ")
		p.Ref(n, "class")
		p.W(" {}")
	}},
	{"interface extends", "class", false, func(p *Prog, n string) {
		p.Decl("interface", "I1", " extends ")
		p.Ref(n, "class")
		p.W(", ")
		p.Ref("I2", "class")
		p.W(" {}")
	}},
	{"new", "class", false, func(p *Prog, n string) { p.W("new "); p.Ref(n, "class"); p.W(";") }},
	{"new with arguments", "class", false, func(p *Prog, n string) { p.W("new "); p.Ref(n, "class"); p.W("(1);") }},
	{"anonymous class extends", "class", true, func(p *Prog, n string) {
		p.W("new class extends ")
		p.Ref(n, "class")
		p.W(" implements ")
		p.Ref("I0", "class")
		p.W(" {};")
	}},
	{"static call", "class", false, func(p *Prog, n string) { p.Ref(n, "class"); p.W("::f();") }},
	{"static property", "class", false, func(p *Prog, n string) { p.Ref(n, "class"); p.W("::$p;") }},
	{"class constant", "class", false, func(p *Prog, n string) { p.Ref(n, "class"); p.W("::K;") }},
	{"instanceof", "class", false, func(p *Prog, n string) { p.W("$x instanceof "); p.Ref(n, "class"); p.W(";") }},
	// names inside the dynamic parts of a class reference (`new $a->{X::K}`, `new $a[X::K]`, `instanceof $a->{…}`)
	{"class constant inside the braces of a dynamic new", "class", false, func(p *Prog, n string) { p.W("new $a->{"); p.Ref(n, "class"); p.W("::K};") }},
	{"class constant inside the offset of a dynamic new", "class", false, func(p *Prog, n string) { p.W("new $a["); p.Ref(n, "class"); p.W("::K];") }},
	{"class constant inside the braces of a dynamic instanceof", "class", false, func(p *Prog, n string) { p.W("$x instanceof $a->{"); p.Ref(n, "class"); p.W("::K};") }},
	{"class constant inside the braces of a property fetch", "class", false, func(p *Prog, n string) { p.W("$a->{"); p.Ref(n, "class"); p.W("::K}->{"); p.Ref(n, "class"); p.W("::L}();") }},
	{"class constant inside a variable-variable and a static property name", "class", false, func(p *Prog, n string) { p.W("${"); p.Ref(n, "class"); p.W("::K}; "); p.Ref(n, "class"); p.W("::${"); p.Ref(n, "class"); p.W("::L};") }},
	{"catch", "class", false, func(p *Prog, n string) { p.W("try {} catch ("); p.Ref(n, "class"); p.W(" $e) {}") }},
	{"multi catch", "class", true, func(p *Prog, n string) {
		p.W("try {} catch (")
		p.Ref("E1", "class")
		p.W(" | ")
		p.Ref(n, "class")
		p.W(" $e) {}")
	}},
	{"function parameter", "type", false, func(p *Prog, n string) { p.Decl("function", "f1", "("); p.Ref(n, "type"); p.W(" $p) {}") }},
	{"second function parameter", "type", false, func(p *Prog, n string) {
		p.Decl("function", "f1", "($o, ")
		p.Ref(n, "type")
		p.W(" &$p = ")
		p.Ref("null", "const")
		p.W(") {}")
	}},
	{"nullable parameter", "type", true, func(p *Prog, n string) { p.Decl("function", "f1", "(?"); p.Ref(n, "type"); p.W(" $p) {}") }},
	{"return type", "type", true, func(p *Prog, n string) { p.Decl("function", "f1", "(): "); p.Ref(n, "type"); p.W(" {}") }},
	{"nullable return type", "type", true, func(p *Prog, n string) { p.Decl("function", "f1", "(): ?"); p.Ref(n, "type"); p.W(" {}") }},
	{"property type", "type", true, func(p *Prog, n string) { p.Decl("class", "C1", " { public "); p.Ref(n, "type"); p.W(" $p; }") }},
	{"nullable property type", "type", true, func(p *Prog, n string) { p.Decl("class", "C1", " { static ?"); p.Ref(n, "type"); p.W(" $p; }") }},
	{"method parameter and return", "type", true, func(p *Prog, n string) {
		p.Decl("class", "C1", " { function m(")
		p.Ref(n, "type")
		p.W(" $p): ")
		p.Ref(n, "type")
		p.W(" {} }")
	}},
	{"method parameter", "type", false, func(p *Prog, n string) { p.Decl("class", "C1", " { function m("); p.Ref(n, "type"); p.W(" $p) {} }") }},
	{"interface method parameter", "type", false, func(p *Prog, n string) {
		p.Decl("interface", "I1", " { function m(")
		p.Ref(n, "type")
		p.W(" $p); }")
	}},
	{"trait method parameter", "type", false, func(p *Prog, n string) { p.Decl("trait", "T0", " { function m("); p.Ref(n, "type"); p.W(" $p) {} }") }},
	{"closure parameter and return", "type", true, func(p *Prog, n string) {
		p.W("function(")
		p.Ref(n, "type")
		p.W(" $p): ")
		p.Ref(n, "type")
		p.W(" {};")
	}},
	{"closure parameter", "type", false, func(p *Prog, n string) { p.W("$f = function("); p.Ref(n, "type"); p.W(" $p) {};") }},
	{"static closure parameter", "type", false, func(p *Prog, n string) { p.W("$f = static function("); p.Ref(n, "type"); p.W(" $p) {};") }},
	{"arrow function parameter and return", "type", true, func(p *Prog, n string) {
		p.W("fn(")
		p.Ref(n, "type")
		p.W(" $p): ")
		p.Ref(n, "type")
		p.W(" => 1;")
	}},
	{"trait use", "class", false, func(p *Prog, n string) { p.Decl("class", "C1", " { use "); p.Ref(n, "class"); p.W("; }") }},
	{"trait use in trait", "class", false, func(p *Prog, n string) { p.Decl("trait", "T0", " { use "); p.Ref(n, "class"); p.W("; }") }},
	{"insteadof: trait of the method", "class", false, func(p *Prog, n string) {
		p.Decl("class", "C1", " { use ")
		p.Ref("T1", "class")
		p.W(", ")
		p.Ref("T2", "class")
		p.W(" { ")
		p.Ref(n, "class")
		p.W("::m insteadof ")
		p.Ref("T2", "class")
		p.W("; } }")
	}},
	{"insteadof: excluded trait", "class", false, func(p *Prog, n string) {
		p.Decl("class", "C1", " { use ")
		p.Ref("T1", "class")
		p.W(", ")
		p.Ref("T2", "class")
		p.W(" { ")
		p.Ref("T1", "class")
		p.W("::m insteadof ")
		p.Ref(n, "class")
		p.W("; } }")
	}},
	{"trait alias: trait of the method", "class", false, func(p *Prog, n string) {
		p.Decl("class", "C1", " { use ")
		p.Ref("T1", "class")
		p.W(" { ")
		p.Ref(n, "class")
		p.W("::m as x; } }")
	}},
	{"function call", "function", false, func(p *Prog, n string) { p.Ref(n, "function"); p.W("();") }},
	{"function call with arguments", "function", false, func(p *Prog, n string) { p.W("$r = "); p.Ref(n, "function"); p.W("(1, $a);") }},
	{"constant fetch", "const", false, func(p *Prog, n string) { p.W("echo "); p.Ref(n, "const"); p.W(";") }},
	{"constant fetch in expression", "const", false, func(p *Prog, n string) { p.W("$r = 1 + "); p.Ref(n, "const"); p.W(";") }},
	// constant expressions of declarations (the PHP 5 grammar has a grammar of its own for them: static_scalar)
	{"constant in the value of a const declaration", "const", false, func(p *Prog, n string) {
		p.W("const ")
		p.Exp = append(p.Exp, Expect{p.B.Len(), p.Sc.Qualify("K1"), false, "decl const"})
		p.W("K1 = ")
		p.Ref(n, "const")
		p.W(";")
	}},
	{"constant in the value of a class constant", "const", false, func(p *Prog, n string) {
		p.Decl("class", "C1", " { const K = ")
		p.Ref(n, "const")
		p.W("; }")
	}},
	{"constant in a property default inside array()", "const", false, func(p *Prog, n string) {
		p.Decl("class", "C1", " { public $p = array(1 => ")
		p.Ref(n, "const")
		p.W(", 2); }")
	}},
	{"constant in a static variable initialiser", "const", false, func(p *Prog, n string) {
		p.Decl("function", "f1", "() { static $s = ")
		p.Ref(n, "const")
		p.W(" | 1; }")
	}},
	{"constant in a parameter default", "const", false, func(p *Prog, n string) {
		p.Decl("function", "f1", "($p = ")
		p.Ref(n, "const")
		p.W(") {}")
	}},
	{"class constant of a name in a constant expression", "class", false, func(p *Prog, n string) {
		p.Decl("class", "C1", " { const K = ")
		p.Ref(n, "class")
		p.W("::X; }")
	}},
	{"nested: call inside method of class", "function", false, func(p *Prog, n string) {
		p.Decl("class", "C1", " { function m() { return ")
		p.Ref(n, "function")
		p.W("(); } }")
	}},
	{"nested: new inside function", "class", false, func(p *Prog, n string) {
		p.Decl("function", "f1", "() { if (1) { return new ")
		p.Ref(n, "class")
		p.W("; } }")
	}},
	{"declarations", "", false, func(p *Prog, n string) {
		p.Decl("class", "D1", " {} ")
		p.Decl("interface", "D2", " {} ")
		p.Decl("trait", "D3", " {} ")
		p.Decl("function", "d4", "() {} ")
		p.Decl("abstract class", "D7", " {} ")
		p.Decl("final class", "D8", " {} ")
		p.W("const ")
		p.Exp = append(p.Exp, Expect{p.B.Len(), p.Sc.Qualify("D5"), false, "decl const"})
		p.W("D5 = 1, ")
		p.Exp = append(p.Exp, Expect{p.B.Len(), p.Sc.Qualify("D6"), false, "decl const"})
		p.W("D6 = 2;")
	}},
}

var Names = []string{"Foo", "foo", "FOO", "Bar", `Foo\Bar`, `foo\Bar`, `Bar\Foo`, `W\Q`, `w\Q`, "A", "a", `\Foo`, `\Foo\Bar`, `namespace\Foo`, `namespace\Foo\Bar`, `NAMESPACE\Foo`,
	"self", "parent", "static", "Self", "PARENT", "int", "float", "bool", "string", "void", "iterable", "object", "INT", "String", "true", "false", "null", "NULL", "True",
	// bytes >= 0x80 are name characters and have no case
	"B\u00e4r", "B\u00c4R", "b\u00e4r", "B\xfe", "B\u00e4r\\Q"}

type NSForm struct {
	Name string
	Emit func(p *Prog, imps []Import, body func())
}

func addAll(p *Prog, imps []Import) {
	for _, i := range imps {
		if i.Text != "" {
			p.W(i.Text + " ")
		}
		i.Add(p.Sc)
	}
}

func texts(imps []Import) string {
	var s []string
	for _, i := range imps {
		if i.Text != "" {
			s = append(s, i.Text)
		}
	}
	return strings.Join(s, " ")
}

var NSForms = []NSForm{
	{"no namespace", func(p *Prog, imps []Import, body func()) { p.Sc = NewScope(""); addAll(p, imps); body() }},
	{"namespace A;", func(p *Prog, imps []Import, body func()) {
		p.W("namespace A; ")
		p.Sc = NewScope("A")
		addAll(p, imps)
		body()
	}},
	{"namespace A\\B;", func(p *Prog, imps []Import, body func()) {
		p.W(`namespace A\B; `)
		p.Sc = NewScope(`A\B`)
		addAll(p, imps)
		body()
	}},
	{"imports in an earlier namespace; namespace A;", func(p *Prog, imps []Import, body func()) {
		p.W("namespace Z; " + texts(imps) + " namespace A; ")
		p.Sc = NewScope("A")
		body()
	}},
	{"namespace A { }", func(p *Prog, imps []Import, body func()) {
		p.W("namespace A { ")
		p.Sc = NewScope("A")
		addAll(p, imps)
		body()
		p.W(" }")
	}},
	{"namespace { }", func(p *Prog, imps []Import, body func()) {
		p.W("namespace { ")
		p.Sc = NewScope("")
		addAll(p, imps)
		body()
		p.W(" }")
	}},
	{"imports in an earlier braced namespace; namespace A { }", func(p *Prog, imps []Import, body func()) {
		p.W("namespace Z { " + texts(imps) + " } namespace A { ")
		p.Sc = NewScope("A")
		body()
		p.W(" }")
	}},
	{"imports in an earlier braced namespace; namespace { }", func(p *Prog, imps []Import, body func()) {
		p.W("namespace Z { " + texts(imps) + " } namespace { ")
		p.Sc = NewScope("")
		body()
		p.W(" }")
	}},
	{"imports in an earlier global block; a named block between; namespace { }", func(p *Prog, imps []Import, body func()) {
		p.W("namespace { " + texts(imps) + " } namespace Z { } namespace { ")
		p.Sc = NewScope("")
		body()
		p.W(" }")
	}},
	{"imports in an earlier global block; namespace { }", func(p *Prog, imps []Import, body func()) {
		p.W("namespace { " + texts(imps) + " } namespace { ")
		p.Sc = NewScope("")
		body()
		p.W(" }")
	}},
	{"imports in an earlier block of the same named namespace; namespace A { }", func(p *Prog, imps []Import, body func()) {
		p.W("namespace A { " + texts(imps) + " } namespace A { ")
		p.Sc = NewScope("A")
		body()
		p.W(" }")
	}},
	{"imports in an earlier namespace A; namespace A; again", func(p *Prog, imps []Import, body func()) {
		p.W("namespace A; " + texts(imps) + " namespace A; ")
		p.Sc = NewScope("A")
		body()
	}},
	// an import takes effect for the code that follows it: the same reference before and after the imports
	{"the reference also before the imports; namespace A;", func(p *Prog, imps []Import, body func()) {
		p.W("namespace A; ")
		p.Sc = NewScope("A")
		body()
		p.W(" ")
		addAll(p, imps)
		body()
	}},
	{"the reference also before the imports; no namespace", func(p *Prog, imps []Import, body func()) {
		p.Sc = NewScope("")
		body()
		p.W(" ")
		addAll(p, imps)
		body()
	}},
	{"after a declaration in the same namespace", func(p *Prog, imps []Import, body func()) {
		p.W("namespace A; ")
		p.Sc = NewScope("A")
		addAll(p, imps)
		p.Decl("class", "Early", " {} ")
		body()
	}},
}

// ValidFor: may the (special) name n stand in this position at all?
func ValidFor(pos Position, n string) bool {
	l := strings.ToLower(n)
	if !(SpecialClass[l] || SpecialType[l] || SpecialConst[l]) {
		return true
	}
	switch pos.Kind {
	case "class":
		if !SpecialClass[l] {
			return false
		}
		switch pos.Name {
		case "new", "new with arguments", "static call", "static property", "class constant", "instanceof", "nested: new inside function":
			return true
		}
		return false
	case "type":
		if l == "static" || SpecialConst[l] {
			return false
		}
		if l == "void" {
			return pos.Name == "return type"
		}
		if l == "self" || l == "parent" {
			return true
		}
		return pos.PHP7
	case "const":
		// the scalar type names are ordinary identifiers outside type positions: `echo int;` fetches a constant
		return SpecialConst[l] || plainWord[l]
	case "function":
		// … and `object([])` calls a function of that name (resolved like any other function name)
		return plainWord[l]
	}
	return false
}

var plainWord = map[string]bool{"int": true, "float": true, "bool": true, "string": true, "void": true, "iterable": true, "object": true}
