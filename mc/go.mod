module github.com/z7zmey/php-parser/verifmc

go 1.13

require github.com/z7zmey/php-parser v0.0.0

replace github.com/z7zmey/php-parser => /repo
