// Package slotm: the slot vocabulary — which lexemes PHP allows in which token slot of which node kind.
// Written from the PHP language reference (keywords, punctuation, operator spellings), not from the
// printer or the grammar actions. The table is partial: a (kind, slot) it does not mention is unconstrained.
package slotm

import (
	"regexp"
	"strings"
)

// Vocab of one slot. Canon[0] is the canonical lexeme; Allowed matches the text a parsed token may carry.
type Vocab struct {
	Canon   []string
	allowed *regexp.Regexp
	Keyword bool
}

func (v *Vocab) Allowed(text string) bool {
	if v.allowed != nil {
		return v.allowed.MatchString(text)
	}
	for _, c := range v.Canon {
		if v.Keyword {
			if strings.EqualFold(text, c) {
				return true
			}
		} else if text == c {
			return true
		}
	}
	return false
}

func kw(words ...string) *Vocab    { return &Vocab{Canon: words, Keyword: true} }
func punct(words ...string) *Vocab { return &Vocab{Canon: words} }
func re(canon string, expr string) *Vocab {
	return &Vocab{Canon: []string{canon}, allowed: regexp.MustCompile(expr)}
}

const closeTag = `\?>(\r\n|\n|\r)?`

// by slot name, any kind
var bySlot = map[string]*Vocab{
	"SemiColonTkn":              re(";", `^(;|;?[ \t\r\n]*`+closeTag+`)$`), // a close tag ends a statement like `;`; the scanner hands `;` blanks `?>` over as one token
	"InitSemiColonTkn":          punct(";"),
	"CondSemiColonTkn":          punct(";"),
	"OpenParenthesisTkn":        punct("("),
	"CloseParenthesisTkn":       punct(")"),
	"UseOpenParenthesisTkn":     punct("("),
	"UseCloseParenthesisTkn":    punct(")"),
	"OpenCurlyBracketTkn":       punct("{"),
	"CloseCurlyBracketTkn":      punct("}"),
	"OpenSquareBracketTkn":      punct("["),
	"CloseSquareBracketTkn":     punct("]"),
	"OpenBracketTkn":            punct("[", "(", "{"),
	"CloseBracketTkn":           punct("]", ")", "}"),
	"ColonTkn":                  punct(":"),
	"DoubleColonTkn":            punct("::"),
	"AmpersandTkn":              punct("&"),
	"NsSeparatorTkn":            punct("\\"),
	"LeadingNsSeparatorTkn":     punct("\\"),
	"DoubleArrowTkn":            punct("=>"),
	"CaseSeparatorTkn":          punct(":", ";"),
	"VariadicTkn":               punct("..."),
	"EllipsisTkn":               punct("..."),
	"QuestionTkn":               punct("?"),
	"ObjectOperatorTkn":         punct("->"),
	"MinusTkn":                  punct("-"),
	"PlusTkn":                   punct("+"),
	"IncTkn":                    punct("++"),
	"DecTkn":                    punct("--"),
	"TildaTkn":                  punct("~"),
	"ExclamationTkn":            punct("!"),
	"AtTkn":                     punct("@"),
	"DollarTkn":                 punct("$"),
	"DollarOpenCurlyBracketTkn": punct("${"),
	"OpenQuoteTkn":              re("\"", `^[bB]?"$`),
	"CloseQuoteTkn":             punct("\""),
	"OpenBacktickTkn":           punct("`"),
	"CloseBacktickTkn":          punct("`"),
	"OpenHeredocTkn":            re("<<<EOT\n", `^[bB]?<<<[ \t]*("[A-Za-z_\x80-\xff][A-Za-z0-9_\x80-\xff]*"|'[A-Za-z_\x80-\xff][A-Za-z0-9_\x80-\xff]*'|[A-Za-z_\x80-\xff][A-Za-z0-9_\x80-\xff]*)(\r\n|\n|\r)$`),
	"CloseHeredocTkn":           re("EOT", `^(\r\n|\n|\r)?[ \t]*[A-Za-z_\x80-\xff][A-Za-z0-9_\x80-\xff]*$`),
	"YieldFromTkn":              re("yield from", `(?i)^yield[ \t\r\n]+from$`),
	"ExitTkn":                   kw("exit", "die"),
	"EchoTkn":                   re("echo", `(?i)^(echo|<\?=)$`),
	"RequireOnceTkn":            kw("require_once"),
	"IncludeOnceTkn":            kw("include_once"),
	"HaltCompilerTkn":           kw("__halt_compiler"),
	"InstanceOfTkn":             kw("instanceof"),
	"ElseIfTkn":                 kw("elseif"),
	"EndWhileTkn":               kw("endwhile"),
	"EndSwitchTkn":              kw("endswitch"),
	"EndIfTkn":                  kw("endif"),
	"EndForeachTkn":             kw("endforeach"),
	"EndForTkn":                 kw("endfor"),
	"EndDeclareTkn":             kw("enddeclare"),
	"InitSeparatorTkns":         punct(","),
	"CondSeparatorTkns":         punct(","),
	"LoopSeparatorTkns":         punct(","),
	"UseSeparatorTkns":          punct(","),
	"ExtendsSeparatorTkns":      punct(","),
	"ImplementsSeparatorTkns":   punct(","),
	"SeparatorTkns":             punct(","),
}

// slots named <Keyword>Tkn
var keywordSlots = []string{"Use", "Static", "Function", "As", "While", "Extends", "Const", "Yield", "Unset", "Try", "Trait", "Throw",
	"Switch", "Return", "Require", "Print", "New", "List", "Isset", "Interface", "Insteadof", "Include", "Implements", "If", "Goto", "Global",
	"Foreach", "For", "Fn", "Finally", "Eval", "Empty", "Else", "Echo", "Do", "Default", "Declare", "Continue", "Clone", "Class", "Catch", "Case",
	"Break", "Array", "Abstract", "Final", "Public", "Protected", "Private", "Var", "Callable"}

// free-form slots: any text
var freeSlots = map[string]bool{"IdentifierTkn": true, "StringTkn": true, "NumberTkn": true, "MagicConstTkn": true, "InlineHtmlTkn": true,
	"EncapsedStrTkn": true, "EndTkn": true}

// by kind.slot
var byKindSlot = map[string]*Vocab{
	"StmtNamespace.NsTkn": kw("namespace"),
	"NameRelative.NsTkn":  kw("namespace"),

	"Name.SeparatorTkns":               punct("\\"),
	"NameFullyQualified.SeparatorTkns": punct("\\"),
	"NameRelative.SeparatorTkns":       punct("\\"),
	"StmtCatch.SeparatorTkns":          punct("|"),

	"ExprArray.OpenBracketTkn":          punct("[", "("),
	"ExprArray.CloseBracketTkn":         punct("]", ")"),
	"ExprList.OpenBracketTkn":           punct("(", "["),
	"ExprList.CloseBracketTkn":          punct(")", "]"),
	"ExprArrayDimFetch.OpenBracketTkn":  punct("[", "{"),
	"ExprArrayDimFetch.CloseBracketTkn": punct("]", "}"),

	"Parameter.EqualTkn":     punct("="),
	"StmtConstant.EqualTkn":  punct("="),
	"StmtProperty.EqualTkn":  punct("="),
	"StmtStaticVar.EqualTkn": punct("="),

	"ExprAssign.EqualTkn":           punct("="),
	"ExprAssignReference.EqualTkn":  punct("="),
	"ExprAssignBitwiseAnd.EqualTkn": punct("&="),
	"ExprAssignBitwiseOr.EqualTkn":  punct("|="),
	"ExprAssignBitwiseXor.EqualTkn": punct("^="),
	"ExprAssignCoalesce.EqualTkn":   punct("??="),
	"ExprAssignConcat.EqualTkn":     punct(".="),
	"ExprAssignDiv.EqualTkn":        punct("/="),
	"ExprAssignMinus.EqualTkn":      punct("-="),
	"ExprAssignMod.EqualTkn":        punct("%="),
	"ExprAssignMul.EqualTkn":        punct("*="),
	"ExprAssignPlus.EqualTkn":       punct("+="),
	"ExprAssignPow.EqualTkn":        punct("**="),
	"ExprAssignShiftLeft.EqualTkn":  punct("<<="),
	"ExprAssignShiftRight.EqualTkn": punct(">>="),

	"ExprBinaryBitwiseAnd.OpTkn":     punct("&"),
	"ExprBinaryBitwiseOr.OpTkn":      punct("|"),
	"ExprBinaryBitwiseXor.OpTkn":     punct("^"),
	"ExprBinaryBooleanAnd.OpTkn":     punct("&&"),
	"ExprBinaryBooleanOr.OpTkn":      punct("||"),
	"ExprBinaryCoalesce.OpTkn":       punct("??"),
	"ExprBinaryConcat.OpTkn":         punct("."),
	"ExprBinaryDiv.OpTkn":            punct("/"),
	"ExprBinaryEqual.OpTkn":          punct("=="),
	"ExprBinaryGreater.OpTkn":        punct(">"),
	"ExprBinaryGreaterOrEqual.OpTkn": punct(">="),
	"ExprBinaryIdentical.OpTkn":      punct("==="),
	"ExprBinaryLogicalAnd.OpTkn":     kw("and"),
	"ExprBinaryLogicalOr.OpTkn":      kw("or"),
	"ExprBinaryLogicalXor.OpTkn":     kw("xor"),
	"ExprBinaryMinus.OpTkn":          punct("-"),
	"ExprBinaryMod.OpTkn":            punct("%"),
	"ExprBinaryMul.OpTkn":            punct("*"),
	"ExprBinaryNotEqual.OpTkn":       punct("!=", "<>"),
	"ExprBinaryNotIdentical.OpTkn":   punct("!=="),
	"ExprBinaryPlus.OpTkn":           punct("+"),
	"ExprBinaryPow.OpTkn":            punct("**"),
	"ExprBinaryShiftLeft.OpTkn":      punct("<<"),
	"ExprBinaryShiftRight.OpTkn":     punct(">>"),
	"ExprBinarySmaller.OpTkn":        punct("<"),
	"ExprBinarySmallerOrEqual.OpTkn": punct("<="),
	"ExprBinarySpaceship.OpTkn":      punct("<=>"),

	"ExprCastArray.CastTkn":  re("(array)", `(?i)^\([ \t]*array[ \t]*\)$`),
	"ExprCastBool.CastTkn":   re("(bool)", `(?i)^\([ \t]*(bool|boolean)[ \t]*\)$`),
	"ExprCastDouble.CastTkn": re("(float)", `(?i)^\([ \t]*(float|double|real)[ \t]*\)$`),
	"ExprCastInt.CastTkn":    re("(int)", `(?i)^\([ \t]*(int|integer)[ \t]*\)$`),
	"ExprCastObject.CastTkn": re("(object)", `(?i)^\([ \t]*object[ \t]*\)$`),
	"ExprCastString.CastTkn": re("(string)", `(?i)^\([ \t]*(string|binary)[ \t]*\)$`),
	"ExprCastUnset.CastTkn":  re("(unset)", `(?i)^\([ \t]*unset[ \t]*\)$`),
}

func init() {
	for _, k := range keywordSlots {
		if _, ok := bySlot[k+"Tkn"]; !ok {
			bySlot[k+"Tkn"] = kw(strings.ToLower(k))
		}
	}
	// the float cast canonical spelling may be either of the documented ones
	byKindSlot["ExprCastDouble.CastTkn"].Canon = []string{"(float)", "(double)"}
	byKindSlot["ExprCastBool.CastTkn"].Canon = []string{"(bool)", "(boolean)"}
	byKindSlot["ExprCastInt.CastTkn"].Canon = []string{"(int)", "(integer)"}
}

// Lookup returns the vocabulary of kind.slot; nil = unconstrained (free-form or unknown to the table).
func Lookup(kind, slot string) *Vocab {
	if v, ok := byKindSlot[kind+"."+slot]; ok {
		return v
	}
	if freeSlots[slot] {
		return nil
	}
	if v, ok := bySlot[slot]; ok {
		return v
	}
	return nil
}

// Free reports whether the slot is known to be free-form (as opposed to unknown to the table).
func Free(slot string) bool { return freeSlots[slot] }
