package corpus

// Chains: postfix chains — a base followed by up to n postfix operations (property fetch, method call,
// offsets, calls, static members). The operator enumeration of C03 covers prefix/infix operators; this
// covers the "variable" sub-grammar, whose actions (especially in the PHP 5 grammar) are only reached by
// particular sequences of such operations.

type ChainOp struct {
	Text string
	Kind string // model: prop, method, dim, dimc, call, cconst, sprop, scall
}

var ChainOps = []ChainOp{
	{"->b", "prop"}, {"->b()", "method"}, {"->$p", "propv"}, {"[0]", "dim"}, {"{1}", "dimc"}, {"()", "call"}, {"::c", "cconst"}, {"::$s", "sprop"}, {"::m()", "scall"},
}

// Chain is one generated expression with the operations applied to the base in order.
type Chain struct {
	Base string
	Ops  []ChainOp
	Expr string
}

func ChainExprs(n int) []Chain {
	var out []Chain
	bases := []string{"$a", "A", "(new A)"}
	var rec func(base string, ops []ChainOp, expr string)
	rec = func(base string, ops []ChainOp, expr string) {
		if len(ops) > 0 {
			out = append(out, Chain{base, append([]ChainOp{}, ops...), expr})
		}
		if len(ops) == n {
			return
		}
		for _, o := range ChainOps {
			rec(base, append(ops, o), expr+o.Text)
		}
	}
	for _, b := range bases {
		rec(b, nil, b)
	}
	return out
}

// ChainPrograms: every chain as an expression statement, as an assignment target and as a call argument.
func ChainPrograms(n int) []string {
	var out []string
	for _, ch := range ChainExprs(n) {
		out = append(out, "<?php "+ch.Expr+";", "<?php "+ch.Expr+" = $v;", "<?php f("+ch.Expr+", 1);")
	}
	return out
}
