package corpus

import "strings"

// DeepPrograms: balanced nesting and chains of depth n, one very long token of each kind (n characters): the forms
// whose cost or recursion depth grows with the input. Valid PHP 5 and PHP 7.
func DeepPrograms(n int) []string {
	r := strings.Repeat
	var ops []string
	// a chain of every associative binary operator and of every assignment operator (recursion or loops over one spine)
	for _, op := range []string{".", "-", "*", "/", "%", "&", "|", "^", "&&", "||", "and", "or", "xor", "<<", ">>"} {
		ops = append(ops, "<?php $a = "+r("$b "+op+" ", n)+"1;")
	}
	for _, op := range []string{"=", ".=", "+=", "-=", "*=", "/=", "%=", "&=", "|=", "^=", "<<=", ">>="} {
		ops = append(ops, "<?php "+r("$a "+op+" ", n)+"1;")
	}
	ops = append(ops, "<?php $a = "+r("$b instanceof ", n)+"C;", "<?php $a = "+r("- ", n)+"$b;", "<?php $a = "+r("(int) ", n)+"$b;", "<?php $a = "+r("@", n)+"$b;",
		"<?php "+r("$a::", n)+"b;", "<?php echo "+r("$a, ", n)+"1;", "<?php "+r("else if ($a) ", 0)+"if ($a) $b; "+r("elseif ($a) $b; ", n)+"else $c;", "<?php if ($a) $b; "+r("else if ($a) $b; ", n))
	return append(ops, []string{
		"<?php $a = " + r("[", n) + "1" + r("]", n) + ";",
		"<?php $a = " + r("(", n) + "1" + r(")", n) + ";",
		"<?php $a = " + r("array(", n) + "1" + r(")", n) + ";",
		"<?php $a = " + r("f(", n) + "1" + r(")", n) + ";",
		"<?php " + r("if ($a) { ", n) + "$b;" + r(" }", n),
		"<?php " + r("if ($a): ", n) + "$b;" + r(" endif;", n),
		"<?php " + r("while ($a) ", n) + "$b;",
		"<?php " + r("function f() { ", n) + r("}", n),
		"<?php $a = " + r("function () { return ", n) + "1;" + r(" };", n),
		"<?php $a = " + r("1 + ", n) + "1;",
		"<?php $a = " + r("$b ? ", n) + "1" + r(" : 2", n) + ";",
		"<?php $a = " + r("!", n) + "$b;",
		"<?php $a" + r("->b", n) + ";",
		"<?php $a" + r("[1]", n) + " = 2;",
		"<?php $a" + r("->b()", n) + ";",
		"<?php new " + r("A\\", n) + "B;",
		"<?php f(" + r("1, ", n) + "1);",
		"<?php $a = [" + r("1 => 2, ", n) + "];",
		"<?php echo \"" + r("$a ", n) + "\";",
		"<?php echo \"" + r("{$a[1]} ", n) + "\";",
		"<?php $x = '" + r("ab", n) + "';",
		"<?php /* " + r("c\n", n) + " */ $a;",
		"<?php $" + r("ab", n) + ";",
		"<?php " + r("ab", n) + "();",
		"<?php $a = <<<A\n" + r("x $b\n", n) + "A;\n",
		"<?php class A { " + r("public $a; function f() {} const C = 1; ", n) + "}",
		"<?php switch ($a) { " + r("case 1: $b; break; ", n) + "}",
		"<?php try { } " + r("catch (A $e) { } ", n),
		"<?php " + r("namespace A; ", n),
		"<?php use " + r("A\\B, ", n) + "C;",
		r("<p>\n", n) + "<?php $a ?>" + r("x\n", n),
	}...)
}

// WidePrograms: one statement form repeated n times — whatever a parser allocates per construct (tokens, positions, name
// parts, list items, …) is allocated more than n times in one parse, so that blocks and tables of any size below n roll over.
func WidePrograms(n int) []string {
	r := strings.Repeat
	var out []string
	for _, unit := range []string{
		"N\\f($x); ", "$a = new \\A\\B\\C(1, 'k' => [2]); ", "class C extends \\P\\Q implements I, J { use T; const K = 1; public $p = 2; function m(T $a, &...$b): ?R { return $this->p; } } ",
		"function f(A\\B $a = null, int ...$r) { static $s = 1; global $g; return fn($x) => $x; } ", "use A\\B as C, D\\E; ", "namespace X\\Y; ",
		"$s = \"x $a[0] {$b->c} ${d}\" . <<<H\n$e\nH\n . `ls $f`; ", "if ($a): foreach ($b as $k => list($c, , $d)): endforeach; elseif ($e): else: endif; ",
		"try { throw new E; } catch (A | B $e) { } finally { } ", "list(, $a, , $b) = [1, 2 => &$c, ...$d]; ", "$x = $a ? $b : ($c ?: $d ?? $e) <=> -$f ** 2; ",
		"switch ($a) { case 1: break; default: continue 2; } ", "?>html<?php ", "/** d */ abstract class A { abstract protected static function f(); } ", "echo A::B, $a::$b, A::c(), $o->m()->n[1]{2}; ",
	} {
		out = append(out, "<?php "+r(unit, n))
	}
	return out
}

// DeepBraces: interpolating strings of every kind n block levels deep (the scanner keeps one stack for braces and string
// modes; a limit or a table of any size below n is crossed by the pushes of the string modes, not by those of the braces).
func DeepBraces(n int) []string {
	r := strings.Repeat
	body := "\"x $b $c[0] $d->e {$f} ${g}\"; `h $i`; $j = <<<H\n$k $l[1]\nH\n;"
	return []string{
		"<?php " + r("if ($a) { ", n) + body + r(" }", n),
		"<?php " + r("{ ", n) + body + r(" }", n),
		"<?php $x = " + r("function () { return ", n) + "\"$b\";" + r(" };", n),
	}
}
