package corpus

import "strings"

// DeepPrograms: balanced nesting and chains of depth n, one very long token of each kind (n characters): the forms
// whose cost or recursion depth grows with the input. Valid PHP 5 and PHP 7.
func DeepPrograms(n int) []string {
	r := strings.Repeat
	var ops []string
	// a chain of every associative binary operator and of every assignment operator (recursion or loops over one spine)
	for _, op := range []string{".", "-", "*", "/", "%", "&", "|", "^", "&&", "||", "and", "or", "xor", "<<", ">>"} {
		ops = append(ops, "<?php $a = "+r("$b "+op+" ", n)+"1;")
	}
	for _, op := range []string{"=", ".=", "+=", "-=", "*=", "/=", "%=", "&=", "|=", "^=", "<<=", ">>="} {
		ops = append(ops, "<?php "+r("$a "+op+" ", n)+"1;")
	}
	ops = append(ops, "<?php $a = "+r("$b instanceof ", n)+"C;", "<?php $a = "+r("- ", n)+"$b;", "<?php $a = "+r("(int) ", n)+"$b;", "<?php $a = "+r("@", n)+"$b;",
		"<?php "+r("$a::", n)+"b;", "<?php echo "+r("$a, ", n)+"1;", "<?php "+r("else if ($a) ", 0)+"if ($a) $b; "+r("elseif ($a) $b; ", n)+"else $c;", "<?php if ($a) $b; "+r("else if ($a) $b; ", n))
	return append(ops, []string{
		"<?php $a = " + r("[", n) + "1" + r("]", n) + ";",
		"<?php $a = " + r("(", n) + "1" + r(")", n) + ";",
		"<?php $a = " + r("array(", n) + "1" + r(")", n) + ";",
		"<?php $a = " + r("f(", n) + "1" + r(")", n) + ";",
		"<?php " + r("if ($a) { ", n) + "$b;" + r(" }", n),
		"<?php " + r("if ($a): ", n) + "$b;" + r(" endif;", n),
		"<?php " + r("while ($a) ", n) + "$b;",
		"<?php " + r("function f() { ", n) + r("}", n),
		"<?php $a = " + r("function () { return ", n) + "1;" + r(" };", n),
		"<?php $a = " + r("1 + ", n) + "1;",
		"<?php $a = " + r("$b ? ", n) + "1" + r(" : 2", n) + ";",
		"<?php $a = " + r("!", n) + "$b;",
		"<?php $a" + r("->b", n) + ";",
		"<?php $a" + r("[1]", n) + " = 2;",
		"<?php $a" + r("->b()", n) + ";",
		"<?php new " + r("A\\", n) + "B;",
		"<?php f(" + r("1, ", n) + "1);",
		"<?php $a = [" + r("1 => 2, ", n) + "];",
		"<?php echo \"" + r("$a ", n) + "\";",
		"<?php echo \"" + r("{$a[1]} ", n) + "\";",
		"<?php $x = '" + r("ab", n) + "';",
		"<?php /* " + r("c\n", n) + " */ $a;",
		"<?php $" + r("ab", n) + ";",
		"<?php " + r("ab", n) + "();",
		"<?php $a = <<<A\n" + r("x $b\n", n) + "A;\n",
		"<?php class A { " + r("public $a; function f() {} const C = 1; ", n) + "}",
		"<?php switch ($a) { " + r("case 1: $b; break; ", n) + "}",
		"<?php try { } " + r("catch (A $e) { } ", n),
		"<?php " + r("namespace A; ", n),
		"<?php use " + r("A\\B, ", n) + "C;",
		r("<p>\n", n) + "<?php $a ?>" + r("x\n", n),
	}...)
}
