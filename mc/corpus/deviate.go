package corpus

import (
	"fmt"
	"strings"

	"github.com/z7zmey/php-parser/verifmc/lexm"
)

// neighbours returns the nearest non-empty piece texts left and right of piece i.
func neighbours(r *lexm.Rendering, i int) (string, string) {
	l, rt := "", ""
	for j := i - 1; j >= 0; j-- {
		if r.Pieces[j].Text != "" {
			l = r.Pieces[j].Text
			break
		}
	}
	for j := i + 1; j < len(r.Pieces); j++ {
		if r.Pieces[j].Text != "" {
			rt = r.Pieces[j].Text
			break
		}
	}
	return l, rt
}

// Allowed: may trivia t stand in gap piece i?
func Allowed(r *lexm.Rendering, i int, t lexm.Trivia) (text string, ok bool) {
	p := r.Pieces[i]
	switch p.Gap {
	case lexm.NoGap:
		return "", false
	case lexm.GapWS:
		if !t.WSOnly {
			return "", false
		}
	}
	text = t.Text
	if p.Gap == lexm.GapNL {
		// the closing heredoc label must be followed by a line terminator (rule of PHP < 7.3)
		if !(strings.HasPrefix(text, "\n") || strings.HasPrefix(text, "\r")) {
			text = "\n" + text
		}
		return text, true
	}
	l, rt := neighbours(r, i)
	if text != "" && l != "" && l[len(l)-1] == '/' && text[0] == '/' {
		return "", false // `/` directly followed by a comment would itself start a one-line comment
	}
	if text == "" && (rt == "}" || rt == "[") && p.Mode == "php}" {
		// `${name}` / `${name[` is a variable name, `${name }` an expression: the blank is not trivia
		k := 0
		for j := i - 1; j >= 0 && k < 2; j-- {
			if r.Pieces[j].Text == "" {
				continue
			}
			k++
			if k == 2 && r.Pieces[j].Text == "${" && lexm.IsNameByte(l[len(l)-1]) {
				return "", false
			}
		}
	}
	if text == "" && (i+1 >= len(r.Pieces) || !lexm.Separable(l, rt)) {
		return "", false
	}
	// a one-line comment swallows the rest of the line: it must end with a newline of its own (it does in
	// the alphabet) — and `?>` inside one ends PHP mode, which the alphabet avoids.
	// `<?php` needs one blank of its own: the open tag piece already contains it.
	if l == "<?php " && text == "" {
		return "", true
	}
	return text, true
}

// WithGap returns the source with gap piece i replaced by text.
func WithGap(r *lexm.Rendering, i int, text string) string {
	var b strings.Builder
	for j, p := range r.Pieces {
		if j == i {
			b.WriteString(text)
		} else {
			b.WriteString(p.Text)
		}
	}
	return b.String()
}

// Gaps lists the indexes of the gap pieces.
func Gaps(r *lexm.Rendering) []int {
	var g []int
	for i, p := range r.Pieces {
		if p.Gap != lexm.NoGap {
			g = append(g, i)
		}
	}
	return g
}

// UniqueTrivia: every gap carries a trivia that occurs nowhere else in the program, so a token stored in
// a wrong slot, dropped, duplicated or reordered shows in the printed bytes.
func UniqueTrivia(r *lexm.Rendering) string {
	var b strings.Builder
	k := 0
	for _, p := range r.Pieces {
		switch p.Gap {
		case lexm.NoGap:
			b.WriteString(p.Text)
		case lexm.GapWS:
			k++
			b.WriteString(strings.Repeat(" ", 1+k%7) + strings.Repeat("\t", 1+k/7))
		case lexm.GapNL:
			k++
			fmt.Fprintf(&b, "\n/*%d*/ ", k)
		default:
			k++
			if k%3 == 0 {
				fmt.Fprintf(&b, " /*%d*/\n", k)
			} else {
				fmt.Fprintf(&b, " /*%d*/ ", k)
			}
		}
	}
	return b.String()
}

// Layout renders the program with the same trivia in every gap (contrasting layouts for C17).
func Layout(r *lexm.Rendering, free, ws string) string {
	var b strings.Builder
	for i, p := range r.Pieces {
		switch p.Gap {
		case lexm.NoGap:
			b.WriteString(p.Text)
		case lexm.GapWS:
			b.WriteString(ws)
		case lexm.GapNL:
			b.WriteString("\n" + free)
		default:
			if free == "" {
				if _, ok := Allowed(r, i, lexm.Trivia{Text: "", WSOnly: true}); !ok {
					b.WriteString(" ")
					continue
				}
			}
			b.WriteString(free)
		}
	}
	return b.String()
}
