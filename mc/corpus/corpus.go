// Package corpus: the E-lr corpus — sentences generated from the LALR automaton of the current grammar,
// written down by M-lex, scanned by the real scanner and classified by the reference LR driver.
package corpus

import (
	"fmt"
	"path/filepath"
	"strings"

	"github.com/z7zmey/php-parser/pkg/token"
	"github.com/z7zmey/php-parser/pkg/version"
	"github.com/z7zmey/php-parser/verifmc/core"
	"github.com/z7zmey/php-parser/verifmc/lexm"
	"github.com/z7zmey/php-parser/verifmc/lr"
)

type Fam struct {
	Name string // php7 / php5
	V    *version.Version
	A    *lr.Auto
	G    *lr.Gram
}

var fams = map[string]*Fam{}

// LoadFam reads .build/<fam>.y.output (produced by goyacc -v from the current grammar).
func LoadFam(name string) (*Fam, error) {
	if f, ok := fams[name]; ok {
		return f, nil
	}
	a, err := lr.Load(filepath.Join(core.BuildDir(), name+".y.output"))
	if err != nil {
		return nil, err
	}
	f := &Fam{Name: name, A: a, G: a.Analyse()}
	if name == "php5" {
		f.V = &version.Version{Major: 5, Minor: 6}
	} else {
		f.V = &version.Version{Major: 7, Minor: 4}
	}
	fams[name] = f
	return f, nil
}

func MustFam(name string) *Fam {
	f, err := LoadFam(name)
	if err != nil {
		panic("cannot load automaton of " + name + ": " + err.Error())
	}
	return f
}

// Item is one corpus program.
type Item struct {
	Fam        *Fam
	Why        string
	Rule       int
	Toks       []string // intended terminals (nil for hand-written specials)
	R          *lexm.Rendering
	Src        string
	ScanOK     bool
	Real       []string       // terminal names returned by the real scanner
	RealToks   []*token.Token // the scanner's tokens
	AsIntended bool           // Real == Toks
	Valid      bool           // reference driver accepts Real
	Reduced    []int
}

// Classify scans src with the real scanner and runs the reference driver on what it returned.
func (f *Fam) Classify(it *Item) {
	names, toks, ok := lexm.Scan([]byte(it.Src), f.V)
	it.ScanOK = ok
	if !ok {
		return
	}
	it.Real, it.RealToks = names, toks
	it.AsIntended = it.Toks != nil && strings.Join(names, " ") == strings.Join(it.Toks, " ")
	tr := &lr.Trace{}
	it.Valid = f.A.Run(names, tr)
	it.Reduced = tr.Reduced
}

// FromSentence renders and classifies one terminal string.
func (f *Fam) FromSentence(s lr.Sentence, lex map[int]string) *Item {
	it := &Item{Fam: f, Why: s.Why, Rule: s.Rule, Toks: s.Toks}
	it.R = lexm.Render(s.Toks, lex)
	if !it.R.OK {
		return it
	}
	it.Src = it.R.Source()
	f.Classify(it)
	return it
}

// FromSource classifies a hand-written program.
func (f *Fam) FromSource(src, why string) *Item {
	it := &Item{Fam: f, Why: why, Src: src}
	f.Classify(it)
	return it
}

var itemCache = map[string][]*Item{}

// Items: the rendered corpus at the given level (see lr.Sentences), de-duplicated by source text.
func (f *Fam) Items(level int) []*Item {
	key := fmt.Sprintf("%s/%d", f.Name, level)
	if c, ok := itemCache[key]; ok {
		return c
	}
	var out []*Item
	seen := map[string]bool{}
	for _, s := range f.G.Sentences(level) {
		it := f.FromSentence(s, nil)
		if !it.R.OK || seen[it.Src] {
			continue
		}
		seen[it.Src] = true
		out = append(out, it)
	}
	itemCache[key] = out
	return out
}

// Specials: hand-written programs for the forms the grammar-driven generator cannot vary (heads, tails,
// literal forms, close tags, halt compiler, nested string modes).
func Specials() []string {
	heads := []string{"<?php ", "<?php\n", "<?php\r\n", "<?php\t", "<? ", "<?= $x; ", "<?=$x?>", "#!/usr/bin/php\n<?php ", "#!x\n", "#!x\n<html>\n<?php ",
		"<html>\n<?php ", "<html><?php ", "\n<?php ", "<?PHP ", "<?Php\n", "<<?php ", "x<?php ", "#!x\r\n<?php ", "\xef\xbb\xbf<?php ",
		"#!a\n#!b\n<?php ", "#!a\n#!b\n", "#!a\n\n#!b\n<?php ", " #!a\n<?php "}
	bodies := []string{"$a;", "echo 1;", "if ($a): ?>\nx\n<?php endif;", "foo() ?>", "function f() { ?>x<?php }", "$a; /*c*/ ?>", "$a ; ?>", "$a;\n?>",
		"$a;//c\n?>", "$a;//c ?>", "$a //c ?> x <?php ;", "$a #c\r;", "/** d */ function f() {}", "/**/ $a;", "switch ($a) { case 1: ?>x<?php break; }",
		"$a ?>\r\nx<?php ;", "$a ?>\rx<?php ;", "$a; ?>\r\n<b>\r\n<?php ;", "if ($a): ?>\r\nx\r\n<?php endif;", "$a ?>\n\nx<?php ;", "$a ?>\r\n\r\nx<?php ;",
		// inline HTML inside statement lists of every kind, with 3, 5 and 6 statements (lists with spare capacity)
		"function f() { ?>x<?php $b; }", "{ $a; ?>x<?php $b; }", "if ($a) { ?>x<?php $b; $c; $d; }", "while ($a) { $b; $c; ?>x<?php }", "class A { function m() { ?>x<?php return 1; } }",
		"try { ?>x<?php $b; } catch (E $e) { ?>y<?php $c; } finally { ?>z<?php $d; }", "$f = function() { ?>x<?php $b; };", "switch ($a) { case 1: ?>x<?php $b; break; default: $c; ?>y<?php }",
		"foreach ($a as $b): ?>x<?php $c; endforeach;", "if ($a): ?>x<?php $b; else: ?>y<?php $c; endif;", "for (;;) { $a; ?>x<?php $b; ?>y<?php $c; }", "do { ?>x<?php $b; } while ($a);",
		// a short echo tag directly behind a close tag (no inline HTML between the two statements)
		"$a ?>\n<?= $b ?>\n<?php ;", "if ($a) { ?><?= $c ?><?php }", "$t = 'x'; ?><?= $t ?><?= $u; ?>x<?php ;"}
	tails := []string{"", "?>", "?>\n", "?>\r\n", "?>\r", "?>x", "?>\n\n", "?>\n<?php ;", " __halt_compiler();", " __halt_compiler();x<?php y \x00\xff",
		" __halt_compiler ( ) ;x", " __halt_compiler()?>x", " __HALT_COMPILER();\n<?php 1", "\n", " ", "//c", "#c", "/*c*/", "// c ?>", "/** d */"}
	var out []string
	for _, h := range heads {
		for _, b := range bodies {
			for _, t := range tails {
				out = append(out, h+b+t)
			}
		}
	}
	lits := []string{
		"1", "0", "017", "0x1F", "0b11", "1_000", "9223372036854775807", "9223372036854775808", "0x7FFFFFFFFFFFFFFF", "0xFFFFFFFFFFFFFFFF", "0777777777777777777777",
		"0b1111111111111111111111111111111111111111111111111111111111111111", "1.5", ".5", "1.", "1e3", "1E-3", "1.5e+3", "1_0.2_5",
		"'a'", "'a\\'b'", "'a\\\\'", "'a\nb'", "\"a\"", "\"a\\\"b\"", "\"a\nb\"", "B\"x\"", "\"\\$a\"", "\"$\"", "\"{\"", "\"a{b}\"", "\"a$ b\"",
		"\"$a\"", "\"x $a y\"", "\"$a[0]\"", "\"$a[b]\"", "\"$a[$b]\"", "\"$a[-1]\"", "\"$a->b\"", "\"${a}\"", "\"${a[0]}\"", "\"${ $a }\"", "\"{$a}\"", "\"{$a->b[0]}\"", "\"$a$b\"",
		"\"\\\\$a\"", "\"x\ny $a\nz\"", "\"$a[0x1]\"", "\"$a[0b1]\"", "\"$a[99999999999999999999]\"", "\"$a[ 0]\"", "\"$a[]\"",
		"`ls`", "`ls $a`", "`$a`", "``", "`a\nb`",
		"<<<A\nEOT\nx\nA\n", "<<<A\nx\nEOT;\nA\n", "<<<'A'\n  EOT\nA\n", "<<<AB\nAB\n", "<<<A\nA\n", "<<<'AB'\nAB\n", "<<<AB\n  x\n  AB\n", "<<<AB\n\tx\n\tAB\n", "<<<A\nx\nA\n", "<<<A\nx $a y\nA\n", "<<<A\n$a\nA\n", "<<<A\nx\ny\nA\n", "<<<'A'\nx $a\nA\n", "<<<\"A\"\nx $a\nA\n", "<<< A\nx\nA\n", "<<<A\n\nA\n",
		"<<< 'A'\nx $a\nA\n", "<<<\t'A'\n{$a} ${b}\nA\n", "b<<<'A'\nx $a[0]\nA\n", "B<<< \"A\"\nx $a\nA\n", "b<<<A\nx $a\nA\n", "<<<  \t A\nx\nA\n",
		"<<<A\nx {$a->b} ${c} $d[1]\nA\n", "b<<<A\nx\nA\n", "<<<A\nxA\nA\n", "<<<A\nx\\$a \\{$b}\nA\n", "<<<A\n{$a[<<<B\ny\nB\n]}\nA\n",
		// text that looks like an open or close tag inside string-like nodes (the printer decides its mode from chunk text)
		"\"<?xml version=$v ?>\"", "\"$v ?>\"", "\"?>$v\"", "\"$v ?>\n\"", "\"x ?>\n$v<?php \"", "`php -r $v ?>`", "<<<A\n$v ?>\nA\n", "<<<A\n<?php $v\n?>\nA\n", "<<<'A'\nx ?>\nA\n", "'?>'", "'<?php '", "\"{$v}?>\"", "\"$v<?=\"",
		// member, method and variable names given by an expression in braces
		"$o->{$n[0]}", "$o->{$n[0]}()", "$o->{$n->m}", "$o->{'a'}", "$o->{$a . $b}", "$o->{$n[0]}[1]", "A::{$n[0]}()", "$o::{$n}()", "${$v[0]}", "${$v->p}", "${'a' . $b}", "$$v[0]", "$o->$n[0]", "${$v}[0]", "$o->{$n}[0]",
		"__LINE__", "__FILE__", "__DIR__", "__FUNCTION__", "__CLASS__", "__TRAIT__", "__METHOD__", "__NAMESPACE__", "__line__",
		"(int)$a", "( int )$a", "(INTEGER)$a", "(bool)$a", "(boolean)$a", "(float)$a", "(double)$a", "(real)$a", "(string)$a", "(binary)$a", "(array)$a", "(object)$a", "(unset)$a", "(\tint\t)$a",
		"TRUE", "Null", "foo", "\\foo", "namespace\\foo", "Foo\\Bar", "NAMESPACE\\foo",
		"ARRAY(1)", "Array(1, 2,)", "[1, 2]", "LIST($a) = $b", "ISSET($a)", "EMPTY($a)", "EXIT", "DIE(1)", "NEW Foo", "CLONE $a", "PRINT $a", "$a INSTANCEOF B", "$a AND $b", "$a XOR $b", "$a OR $b",
		"function() { yield\nfrom $a; }", "function() { yield FROM $a; }", "function() { YIELD 1; }",
		"$a->b", "$a-> b", "$a ->b", "$a->class", "$a->  list", "$a::class", "$a::CLASS", "A::class", "$a->b()->c",
		"$$a", "${'a'}", "$$$a", "$a{0}", "1 . 5", "1and 2", "1.and 2", "$a=1or$b", "0x1for", "1 .5", "$a.=.5", "$a<=>-1", "$a- -$b", "$a+ +$b", "$a---$b", "$a+++$b", "$i+++-$j", "A::$n---1", "$a--- -$b", "$a-- - --$b", "$a.-.5", "$a&&&$b", "$a<<<=$b", "$a?:-1", "1-.-1", "$a?->b", "1?:2", "$a?1:2", "$a ?? $b", "$a <=> $b", "$a ??= $b", "fn($x) => $x", "fn&($x) => $x", "static fn() => 1", "static function() {}",
	}
	for _, lf := range lits {
		variants := []string{lf}
		if strings.Contains(lf, "\n") {
			variants = append(variants, strings.Replace(lf, "\n", "\r\n", -1), strings.Replace(lf, "\n", "\r", -1))
		}
		for _, lit := range variants {
			for _, tmpl := range []string{"<?php $x = %s;", "<?php\n/* c\n */ f(%s ,\n 2);\n", "<?php %s;\n?>\nhtml\n<?php $y;"} {
				out = append(out, fmt.Sprintf(tmpl, lit))
			}
		}
	}
	// whole programs: declarations nested in declarations (one carrier per kind of clause must not be shared between the
	// outer and the inner declaration), long tokens and long data
	long := strings.Repeat("0123456789abcdef", 20)
	for _, p := range []string{
		"class A extends B implements I, J { function f() { return new class extends C implements K { function g() { return new class extends D {}; } }; } }",
		"class A extends B { function f() { class E extends F {} interface G extends H {} return 1; } }",
		"interface I extends J, K { const C = 1; } class A implements I { function f() { interface L extends M {} } }",
		"function f() { function g() { function h() {} } class A { function m() { function k() {} } } }",
		"trait T { function f() { return new class { use U { a as b; } }; } }",
		"$f = function () use ($a) { return function () use ($b) { return fn($c) => fn($d) => $c + $d; }; };",
		"$a; __halt_compiler();" + long, "__halt_compiler();\n" + long + "\n" + long, "$s = '" + long + "'; $t = \"" + long + " $v " + long + "\"; /* " + long + " */ $u = <<<A\n" + long + "\nA;\n",
		"?>" + long + "<?php $a; ?>\n" + long,
	} {
		out = append(out, "<?php "+p)
	}
	return out
}
