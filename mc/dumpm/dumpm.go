// Package dumpm: reads a Go-syntax dump back with go/parser and compares it with a reflection walk of the tree.
package dumpm

import (
	"bytes"
	"fmt"
	goast "go/ast"
	goparser "go/parser"
	"reflect"
	"sort"
	"strconv"
	"strings"

	"github.com/z7zmey/php-parser/pkg/ast"
	"github.com/z7zmey/php-parser/pkg/position"
	"github.com/z7zmey/php-parser/pkg/token"
	"github.com/z7zmey/php-parser/pkg/visitor/dumper"
)

var vertexT = reflect.TypeOf((*ast.Vertex)(nil)).Elem()
var tokT = reflect.TypeOf((*token.Token)(nil))
var posT = reflect.TypeOf((*position.Position)(nil))

type G struct {
	Type   string
	Keys   []string
	Fields map[string]*G
	Elems  []*G
	Atom   string
}

func (g *G) String() string {
	if g == nil {
		return "<nil>"
	}
	if g.Fields == nil && g.Elems == nil && g.Type != "list" {
		return g.Type + ":" + g.Atom
	}
	var b strings.Builder
	b.WriteString(g.Type + "{")
	ks := append([]string{}, g.Keys...)
	sort.Strings(ks)
	for _, k := range ks {
		b.WriteString(k + "=" + g.Fields[k].String() + ";")
	}
	for _, e := range g.Elems {
		b.WriteString(e.String() + ",")
	}
	b.WriteString("}")
	return b.String()
}

func (g *G) set(k string, v *G) {
	if g.Fields == nil {
		g.Fields = map[string]*G{}
	}
	g.Keys = append(g.Keys, k)
	if _, dup := g.Fields[k]; dup {
		g.Fields[k+"#dup"] = v
		return
	}
	g.Fields[k] = v
}

// ---- from Go AST ----
func typeStr(e goast.Expr) string {
	switch x := e.(type) {
	case *goast.SelectorExpr:
		return typeStr(x.X) + "." + x.Sel.Name
	case *goast.Ident:
		return x.Name
	case *goast.StarExpr:
		return "*" + typeStr(x.X)
	case *goast.ArrayType:
		return "[]" + typeStr(x.Elt)
	}
	return fmt.Sprintf("?%T", e)
}

func fromGo(e goast.Expr, elided string) (*G, error) {
	switch x := e.(type) {
	case *goast.UnaryExpr: // &T{...} or -1
		g, err := fromGo(x.X, elided)
		if err == nil && x.Op.String() == "-" && g.Type == "int" {
			g = &G{Type: "int", Atom: "-" + g.Atom}
		}
		return g, err
	case *goast.CompositeLit:
		g := &G{}
		if x.Type == nil {
			g.Type = elided
		} else {
			g.Type = typeStr(x.Type)
		}
		if strings.HasPrefix(g.Type, "[]") {
			el := strings.TrimPrefix(strings.TrimPrefix(g.Type, "[]"), "*")
			g.Type = "list"
			for _, it := range x.Elts {
				c, err := fromGo(it, el)
				if err != nil {
					return nil, err
				}
				g.Elems = append(g.Elems, c)
			}
			return g, nil
		}
		g.Fields = map[string]*G{}
		for _, it := range x.Elts {
			kv, ok := it.(*goast.KeyValueExpr)
			if !ok {
				return nil, fmt.Errorf("non key-value in struct literal")
			}
			c, err := fromGo(kv.Value, "")
			if err != nil {
				return nil, err
			}
			id, ok := kv.Key.(*goast.Ident)
			if !ok {
				return nil, fmt.Errorf("key of a struct literal is %T, not a field name", kv.Key)
			}
			g.set(id.Name, c)
		}
		return g, nil
	case *goast.CallExpr: // []byte("...") or token.ID(40)
		fn := typeStr(x.Fun)
		if len(x.Args) != 1 {
			return nil, fmt.Errorf("conversion %s with %d operands", fn, len(x.Args))
		}
		lit, ok := x.Args[0].(*goast.BasicLit)
		if !ok {
			return nil, fmt.Errorf("operand of %s(…) is %T, not a literal", fn, x.Args[0])
		}
		if fn == "[]byte" {
			s, err := strconv.Unquote(lit.Value)
			if err != nil {
				return nil, err
			}
			return &G{Type: "bytes", Atom: s}, nil
		}
		if fn == "token.ID" {
			return &G{Type: "id", Atom: lit.Value}, nil
		}
		return nil, fmt.Errorf("call %s", fn)
	case *goast.SelectorExpr:
		return &G{Type: "id", Atom: x.Sel.Name}, nil
	case *goast.BasicLit:
		return &G{Type: "int", Atom: x.Value}, nil
	}
	return nil, fmt.Errorf("unexpected %T", e)
}

// ---- from reflection ----
func posG(p *position.Position) *G {
	g := &G{Type: "position.Position"}
	g.set("StartLine", &G{Type: "int", Atom: strconv.Itoa(p.StartLine)})
	g.set("EndLine", &G{Type: "int", Atom: strconv.Itoa(p.EndLine)})
	g.set("StartPos", &G{Type: "int", Atom: strconv.Itoa(p.StartPos)})
	g.set("EndPos", &G{Type: "int", Atom: strconv.Itoa(p.EndPos)})
	return g
}

func tokG(t *token.Token, wp bool) *G {
	g := &G{Type: "token.Token", Fields: map[string]*G{}}
	if t.ID > 0 {
		name := t.ID.String()
		if strings.HasPrefix(name, "ID(") {
			g.set("ID", &G{Type: "id", Atom: strconv.Itoa(int(t.ID))})
		} else {
			g.set("ID", &G{Type: "id", Atom: name})
		}
	}
	if t.Value != nil {
		g.set("Val", &G{Type: "bytes", Atom: string(t.Value)})
	}
	if wp && t.Position != nil {
		g.set("Position", posG(t.Position))
	}
	if t.FreeFloating != nil {
		l := &G{Type: "list"}
		for _, f := range t.FreeFloating {
			l.Elems = append(l.Elems, tokG(f, wp))
		}
		g.set("FreeFloating", l)
	}
	return g
}

func nodeG(n ast.Vertex, wt, wp bool) *G {
	v := reflect.ValueOf(n).Elem()
	t := v.Type()
	g := &G{Type: "ast." + t.Name(), Fields: map[string]*G{}}
	for i := 0; i < t.NumField(); i++ {
		f := t.Field(i)
		fv := v.Field(i)
		switch {
		case f.Type == posT:
			if wp && !fv.IsNil() {
				g.set("Position", posG(fv.Interface().(*position.Position)))
			}
		case f.Type == tokT:
			if wt && !fv.IsNil() {
				g.set(f.Name, tokG(fv.Interface().(*token.Token), wp))
			}
		case f.Type.Kind() == reflect.Slice && f.Type.Elem() == tokT:
			if wt && !fv.IsNil() {
				l := &G{Type: "list"}
				for j := 0; j < fv.Len(); j++ {
					l.Elems = append(l.Elems, tokG(fv.Index(j).Interface().(*token.Token), wp))
				}
				g.set(f.Name, l)
			}
		case f.Type == vertexT:
			if !fv.IsNil() {
				g.set(f.Name, nodeG(fv.Interface().(ast.Vertex), wt, wp))
			}
		case f.Type.Kind() == reflect.Slice && f.Type.Elem() == vertexT:
			if !fv.IsNil() {
				l := &G{Type: "list"}
				for j := 0; j < fv.Len(); j++ {
					l.Elems = append(l.Elems, nodeG(fv.Index(j).Interface().(ast.Vertex), wt, wp))
				}
				g.set(f.Name, l)
			}
		case f.Name == "Value":
			if !fv.IsNil() {
				g.set("Val", &G{Type: "bytes", Atom: string(fv.Bytes())})
			}
		}
	}
	return g
}


// Dump runs the real dumper.
func Dump(n ast.Vertex, wt, wp bool) (out string, pan interface{}) {
	defer func() {
		if r := recover(); r != nil {
			pan = r
		}
	}()
	b := &bytes.Buffer{}
	d := dumper.NewDumper(b)
	if wt {
		d = d.WithTokens()
	}
	if wp {
		d = d.WithPositions()
	}
	d.Dump(n)
	first := b.String()
	// "the dump of any tree": also of a tree dumped before — the same Dumper used again must write the same text
	d.Dump(n)
	if second := b.String()[len(first):]; second != first {
		return first, secondDumpDiffers{second}
	}
	return first, nil
}

type secondDumpDiffers struct{ second string }

// Check returns ("", "") if the dump of n is a valid Go literal mirroring n, else (class, detail).
func Check(n ast.Vertex, wt, wp bool) (class, detail string) {
	out, pan := Dump(n, wt, wp)
	if sd, ok := pan.(secondDumpDiffers); ok {
		return "a second Dump through the same Dumper does not repeat the first", clip(out, 150) + " :: then :: " + clip(sd.second, 150)
	}
	if pan != nil {
		return "panic", fmt.Sprint(pan)
	}
	e, err := goparser.ParseExpr("[]interface{}{\n" + out + "}")
	if err != nil {
		return "not valid Go syntax", clip(out, 300) + " :: " + err.Error()
	}
	elts := e.(*goast.CompositeLit).Elts
	if len(elts) != 1 {
		return "not exactly one literal", clip(out, 300)
	}
	got, err := fromGo(elts[0], "")
	if err != nil {
		return "unexpected syntax in literal", err.Error()
	}
	want := nodeG(n, wt, wp)
	return diffG(got, want, "")
}

func clip(s string, n int) string {
	if len(s) > n {
		return s[:n] + "…"
	}
	return s
}

// diffG locates the first difference (innermost).
func diffG(got, want *G, path string) (string, string) {
	if got.String() == want.String() {
		return "", ""
	}
	if got.Type != want.Type {
		return "wrong type at " + pathOr(path, want.Type), fmt.Sprintf("dump has %s, tree has %s", got.Type, want.Type)
	}
	if want.Type == "list" {
		if len(got.Elems) != len(want.Elems) {
			return "list length at " + path, fmt.Sprintf("dump has %d elements, tree has %d", len(got.Elems), len(want.Elems))
		}
		for i := range want.Elems {
			if c, d := diffG(got.Elems[i], want.Elems[i], path); c != "" {
				return c, d
			}
		}
		return "", ""
	}
	if want.Fields == nil {
		return "wrong content at " + path, fmt.Sprintf("dump has %q, tree has %q", got.Atom, want.Atom)
	}
	for _, k := range got.Keys {
		if strings.HasSuffix(k, "#dup") {
			continue
		}
		if _, ok := want.Fields[k]; !ok {
			return "label " + want.Type + "." + k + " does not name a non-empty field of the node", "dump: " + clip(got.String(), 300)
		}
	}
	for k := range got.Fields {
		if strings.HasSuffix(k, "#dup") {
			return "label " + want.Type + "." + strings.TrimSuffix(k, "#dup") + " appears twice", "dump: " + clip(got.String(), 300)
		}
	}
	for _, k := range want.Keys {
		if w := want.Fields[k]; (w.Type == "list" && len(w.Elems) == 0) || (w.Type == "bytes" && w.Atom == "") {
			if _, ok := got.Fields[k]; !ok {
				got.Fields[k] = w // an empty list / empty value may be left out
			}
		}
		if _, ok := got.Fields[k]; !ok {
			return "field " + want.Type + "." + k + " missing from the dump", "dump: " + clip(got.String(), 300)
		}
	}
	for _, k := range want.Keys {
		if c, d := diffG(got.Fields[k], want.Fields[k], want.Type+"."+k); c != "" {
			return c, d
		}
	}
	return "difference at " + path, ""
}

func pathOr(p, alt string) string {
	if p == "" {
		return alt
	}
	return p
}
