#!/bin/bash
# seedingest.sh <prop> <N> [check ids…] : verify /tmp/seed/<prop>/seed_out change N in a scratch worktree, keep it under
# /verif/seeded/<prop>-<N>/, run the quick checks against it, write meta.json.
PROP="$1"; N="$2"; shift 2
SRC=/tmp/seed/$PROP/seed_out
DST=/verif/seeded/$PROP-$N
cd /verif
if [ -f "$DST/VERIFIED" ]; then
  echo "already verified"
else
  ver=$(tools/seedverify.sh "$SRC" "$N" 2>&1)
  echo "$ver" | tail -3
  echo "$ver" | grep -q "^VERIFIED" || { echo "$PROP-$N not kept"; exit 1; }
fi
mkdir -p "$DST"; date > "$DST/VERIFIED"; cp "$SRC/change$N.diff" "$DST/patch.diff"; rm -rf "$DST/demo"; cp -r "$SRC/demo$N" "$DST/demo"; cp "$SRC/change$N.md" "$DST/change.md"
run=$(tools/seedrun.sh "$DST/patch.diff" "$@" 2>&1)
echo "$run" | grep -v "violations=0" | cut -c1-400
echo "$run" > "$DST/checks.log"
python3 - "$PROP" "$N" "$DST" <<'PY'
import sys, json, re
prop, n, dst = sys.argv[1:4]
log = open(dst + '/checks.log').read()
caught = re.search(r'CAUGHT-BY:(.*)', log).group(1).split()
keys = {}
for line in log.split('\n'):
    m = re.match(r'(C\d\d) rc=1 violations=(\d+) (.*)', line)
    if m:
        keys[m.group(1)] = {'violation_classes': int(m.group(2)), 'first_keys': [k.strip() for k in m.group(3).split('|') if k.strip()]}
md = open(dst + '/change.md').read()
meta = {
  'id': '%s-%s' % (prop, n), 'breaks_property': prop,
  'origin': 'written by a fresh sub-agent that saw only the text of the property and a scratch worktree',
  'description': md[:1500],
  'verified': 'tools/seedverify.sh: in a scratch worktree of /repo HEAD the demonstration passes on the clean tree, the patch applies, go build ./... succeeds, the demonstration fails with the patch, and the full suite (go test -mod=mod -vet=off -count=1 ./...) passes with the patch',
  'checks_run': 'tools/seedrun.sh: patch applied to a clean tree of /repo HEAD (private worktree; SEED_IN_REPO=1: /repo itself); ./check.sh <id> quick for the ids in checks.log from a snapshot of the committed /verif; tree restored',
  'caught_by': caught, 'reports': keys,
}
json.dump(meta, open(dst + '/meta.json', 'w'), indent=1)
print('%s-%s caught by: %s' % (prop, n, ' '.join(caught) or 'NONE'))
PY
