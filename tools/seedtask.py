#!/usr/bin/env python3
"""seedtask.py <prop> <n1> <n2> : writes /tmp/seed/<prop>/seed_out/TASK.md (the instructions for a seeding sub-agent)."""
import glob, os, sys
prop, n1, n2 = sys.argv[1:4]
titles = []
for d in sorted(glob.glob('/verif/seeded/%s-*' % prop) + glob.glob('/verif/seeded/retired/%s-*' % prop)):
    f = d + '/change.md'
    if os.path.exists(f):
        t = open(f).readline().strip().lstrip('# ')
        titles.append('- ' + t[:170])
wt = '/tmp/seed/' + prop
task = f"""# Task

You are working in `{wt}`, a scratch git worktree of the Go library z7zmey/PHP-Parser (PHP 5/7 parser in Go:
ragel-generated scanner `internal/scanner`, goyacc grammars `internal/php5`, `internal/php7`, AST `pkg/ast`, printer, dumper,
traverser, formatter and namespace resolver under `pkg/visitor`, pools `pkg/token`, `pkg/position`, command line tool `cmd/php-parser`).
Work **only** inside `{wt}`; never touch `/repo` or `/verif` and do not read `/verif`.

`seed_out/PROPERTY.md` states a semantic property the library is supposed to have. Your job is to write **two different,
independent changes to the library, each of which breaks that property** while

1. the tree still compiles (`go build ./...`),
2. the repository's own test suite still passes, unedited
   (`GOFLAGS=-mod=mod GOPROXY=off GOSUMDB=off GOTOOLCHAIN=local go test -mod=mod -vet=off -count=1 ./...` — run it to be sure; takes a few minutes),
3. the breakage needs **something specific to manifest** — a particular interleaving, a multi-step sequence of operations, an unusual but legal
   input, an optional part being absent, a boundary (end of input, block boundary, the 1025th object), or two cooperating sites that each look
   fine alone. Not something that any ordinary use would expose at once, and not a change that breaks half of all inputs.
   It should look like a plausible refactoring, optimisation, feature or bug fix that a maintainer could have committed
   (no comments that announce the defect).

Be realistic and be subtle: think about what a code reviewer would overlook. Prefer sites that the existing tests do not pin
(check by running the suite). The two changes must differ in mechanism and location from each other and from these changes that
earlier rounds already produced for this property (do not repeat them or close variants of them):

{chr(10).join(titles) if titles else '- (none yet)'}

There is no network. `ragel` and `goyacc` are not installed: when you change `internal/scanner/scanner.rl` or a `.y` grammar, edit the
generated file (`scanner.go`, `php5.go`, `php7.go`) by hand in the same way so that both stay in sync (the generated file is what is compiled).
Every shell command needs `export GOFLAGS=-mod=mod GOPROXY=off GOSUMDB=off GOTOOLCHAIN=local`.

## Deliverables (all under `{wt}/seed_out/`)

For change number N in {{{n1}, {n2}}}:

* `change<N>.diff` — the change as a unified diff against the clean worktree, produced with `git diff` (library files only, nothing under
  `seed_out/`); it must apply with `git apply` to a clean checkout of HEAD. Develop one change at a time: write it, test it, save the diff,
  then `git checkout -- .` (and remove untracked library files you added, after making sure they are in the diff via `git add -N`) before starting the next.
* `demo<N>/` — a demonstration: a Go test (package in `seed_out/demo<N>/`, files guarded by `//go:build seeddemo`, importing the library
  by its module path `github.com/z7zmey/php-parser/...`; tests inside the module can also import `internal/...`) or a small program, that
  **passes (exit 0) on the clean tree and fails (exit non-zero) with the change applied**, and checks the property itself (not an incidental detail).
* `demo<N>/RUN.txt` — a short description; its **last non-empty line is the exact shell command** that runs the demonstration from the worktree root, e.g.
  `GOFLAGS=-mod=mod GOPROXY=off GOSUMDB=off GOTOOLCHAIN=local go test -mod=mod -vet=off -count=1 -tags seeddemo ./seed_out/demo{n1}/`
* `change<N>.md` — first line `# Change <N> - <one-line title>`; then: what was changed and where, why it breaks the property, what exactly it
  needs in order to manifest, why the existing tests do not notice, and the commands you ran with their results (build, suite, demo with/without).

Before you finish, for each change verify from a clean tree (`git checkout -- .`): demo passes; `git apply seed_out/change<N>.diff`; `go build ./...`;
demo fails; full suite passes; `git checkout -- .` again. Leave the worktree clean (only `seed_out/` untracked) at the end.
In your final message give, per change, the title, the files touched and the results of those five steps. If you notice on the way that the
unchanged library already violates the property for some input, mention the input in your final message as an aside.
"""
open(wt + '/seed_out/TASK.md', 'w').write(task)
print(wt + '/seed_out/TASK.md')
