#!/usr/bin/env python3
"""mutcamp.py NAME REL_FILE CHECKS [--yacc] [--only RE] [--funcs RE] [--ops sdl,ror,idx,k1] [--stride N] [--offset K] [--max N]
                [--root /tmp/mut]

Mutation campaign (development diagnostic; never a verdict, never registered in MANIFEST.json).

One build holds every mutant of REL_FILE as a schema guarded by verifhook.M(id) (mc/cmd/mutgen); each mutant is then
switched on through VERIF_MUTANT=id and the quick tier of CHECKS (comma separated, cheapest first) is run in stop-first
mode until one of them reports a violation that is not a recorded finding.  Everything runs in a private copy
(ROOT/verif against the worktree ROOT/repo), so /repo, /verif/evidence and /verif/replays are not touched.

Results: ROOT/results/NAME.jsonl (one line per mutant: killed_by / survived), summary on stdout.
"""
import json, os, re, subprocess, sys, time

args = sys.argv[1:]
name, rel, checks = args[0], args[1], args[2].split(',')
opt = {'--root': '/tmp/mut', '--stride': '1', '--offset': '0', '--max': '0', '--ops': 'sdl,ror,idx,k1', '--only': '', '--funcs': '', '--timeout': '900'}
yacc = False
i = 3
while i < len(args):
    if args[i] == '--yacc':
        yacc = True
        i += 1
    else:
        opt[args[i]] = args[i + 1]
        i += 2
root = opt['--root']
V, R = root + '/verif', root + '/repo'
env = dict(os.environ, GOFLAGS='-mod=mod', GOPROXY='off', GOSUMDB='off', GOTOOLCHAIN='local', VERIF_DIR=V, REPO=R)


def sh(cmd, **kw):
    return subprocess.run(cmd, shell=True, env=env, capture_output=True, text=True, **kw)


os.makedirs(root + '/results', exist_ok=True)
if not os.path.isdir(R):
    r = sh('git -C /repo worktree add -q --detach %s HEAD' % R)
    if r.returncode:
        sys.exit('worktree: ' + r.stderr)
sh('git -C %s checkout -q --detach $(git -C /repo rev-parse HEAD) && git -C %s checkout -q -- .' % (R, R))
os.makedirs(V, exist_ok=True)
sh('rsync -a --delete --exclude .git --exclude seeded --exclude evidence --exclude replays --exclude .build /verif/ %s/' % V)
sh("mkdir -p %s/evidence %s/replays %s/.build; sed -i 's#=> /repo#=> %s#' %s/mc/go.mod %s/third_party/goyacc/go.mod" % (V, V, V, R, V, V))

# base build + baseline verdicts (must be clean, otherwise nothing can be concluded)
base = {}
for ck in checks:
    t0 = time.time()
    r = sh('cd %s && ./check.sh %s quick' % (V, ck))
    base[ck] = time.time() - t0
    if r.returncode != 0:
        print(r.stdout[-2000:], r.stderr[-2000:])
        sys.exit('baseline of %s is not clean (rc=%d)' % (ck, r.returncode))
print('baseline clean:', {k: round(v, 1) for k, v in base.items()}, flush=True)

B = V + '/.build'
ov = json.load(open(B + '/overlay.json'))['Replace']
src = ov.get(R + '/' + rel, R + '/' + rel)
os.makedirs(B + '/mut', exist_ok=True)
mutfile = B + '/mut/' + name + '.go'
listfile = B + '/mut/' + name + '.json'
hook = B + '/mut/muthook.go'
open(hook, 'w').write('''package verifhook

import (
	"os"
	"strconv"
)

// Active is the mutant switched on for this process (0: none).
var Active = func() int { n, _ := strconv.Atoi(os.Getenv("VERIF_MUTANT")); return n }()

func M(id int) bool { return id == Active }
func MI(id, a, b int) int {
	if id == Active {
		return b
	}
	return a
}
func MK(id int) int {
	if id == Active {
		return 1
	}
	return 0
}
''')
r = sh('cd %s/mc && go build -o %s/mutgen ./cmd/mutgen' % (V, B))
if r.returncode:
    sys.exit('mutgen build: ' + r.stderr)
drop = set()
for attempt in range(40):
    cmd = '%s/mutgen -in %s -out %s -list %s -name %s -ops %s' % (B, src, mutfile, listfile, rel, opt['--ops'])
    if yacc:
        cmd += ' -yacc'
    if opt['--only']:
        cmd += " -only '%s'" % opt['--only']
    if opt['--funcs']:
        cmd += " -funcs '%s'" % opt['--funcs']
    if drop:
        cmd += ' -drop ' + ','.join(map(str, sorted(drop)))
    r = sh(cmd)
    if r.returncode:
        sys.exit('mutgen: ' + r.stderr + r.stdout)
    ov2 = dict(ov)
    ov2[R + '/' + rel] = mutfile
    ov2[R + '/internal/verifhook/mut.go'] = hook
    json.dump({'Replace': ov2}, open(B + '/overlay-mut.json', 'w'), indent=1)
    r = sh('cd %s/mc && go build -overlay %s/overlay-mut.json -o %s/check-mut-%s ./cmd/check' % (V, B, B, name))
    if r.returncode == 0:
        break
    muts = json.load(open(listfile))
    byline = {}
    for m in muts:
        byline.setdefault(m['line'], []).append(m['id'])
    bad = set()
    for mm in re.finditer(r'(\S+\.go):(\d+):\d+: (.*)', r.stderr):
        if os.path.basename(mm.group(1)) in (os.path.basename(mutfile), os.path.basename(rel)):
            bad.update(byline.get(int(mm.group(2)), []))
    if not bad:
        print(r.stderr[-3000:])
        sys.exit('build of the mutant schemata failed for a reason that is not a mutant')
    print('dropping %d mutants that do not compile (lines %s…)' % (len(bad), sorted({m["line"] for m in muts if m["id"] in bad})[:8]), flush=True)
    drop |= bad
else:
    sys.exit('schemata do not compile after 40 rounds')
muts = json.load(open(listfile))
print('%d mutants compiled, %d dropped' % (len(muts), len(drop)), flush=True)

resfile = root + '/results/' + name + '.jsonl'
done = {}
if os.path.exists(resfile):
    for l in open(resfile):
        d = json.loads(l)
        done[d['id']] = d
stride, offset, mx = int(opt['--stride']), int(opt['--offset']), int(opt['--max'])
sel = [m for k, m in enumerate(muts) if k % stride == offset % stride]
if mx:
    sel = sel[:mx]
out = open(resfile, 'a')
killed = survived = 0
for m in sel:
    if m['id'] in done:
        d = done[m['id']]
    else:
        d = dict(m, killed_by=None, runs=[])
        for ck in checks:
            e = dict(env, VERIF_MUTANT=str(m['id']), VERIF_STOP_FIRST='1')
            t0 = time.time()
            try:
                r = subprocess.run([B + '/check-mut-' + name, ck, '--tier', 'quick'], env=e, capture_output=True, text=True, timeout=int(opt['--timeout']), cwd=V)
                rc, so = r.returncode, r.stdout
            except subprocess.TimeoutExpired:
                rc, so = 124, ''
            key = ''
            mm = re.search(r'STOP-FIRST .*?key=(.*)', so)
            if mm:
                key = mm.group(1)[:200]
            elif rc == 1:
                mm = re.search(r'key: (.*)', so)
                key = mm.group(1)[:200] if mm else ''
            d['runs'].append({'check': ck, 'rc': rc, 'secs': round(time.time() - t0, 1), 'key': key})
            if rc == 2:
                d['harness_error'] = ck  # no verdict from this check: looked at by hand
            if rc == 1 or rc == 124:
                d['killed_by'] = ck
                d['key'] = key if rc == 1 else 'timeout'
                break
        out.write(json.dumps(d) + '\n')
        out.flush()
    if d['killed_by']:
        killed += 1
    else:
        survived += 1
        print('SURVIVED%s id=%d %s:%d [%s] %s :: %s | %s' % (' (harness error in %s)' % d['harness_error'] if d.get('harness_error') else '', d['id'], rel, d['line'], d['op'], d['func'], d['desc'], d['text'][:100].replace('\n', ' ')), flush=True)
print('SUMMARY %s: mutants=%d killed=%d survived=%d (dropped as not compiling: %d)' % (name, killed + survived, killed, survived, len(drop)))
