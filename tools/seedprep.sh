#!/bin/bash
# seedprep.sh <prop> : scratch worktree /tmp/seed/<prop> of /repo HEAD for a seeding sub-agent, with PROPERTY.md holding
# the text of the property (nothing from /verif's machinery).
PROP="$1"
WT=/tmp/seed/$PROP
mkdir -p /tmp/seed
if [ -d "$WT" ]; then git -C /repo worktree remove --force "$WT" >/dev/null 2>&1; rm -rf "$WT"; fi
git -C /repo worktree prune
git -C /repo worktree add -q --detach "$WT" HEAD || exit 3
mkdir -p "$WT/seed_out"
python3 - "$PROP" "$WT" <<'PY'
import json, sys
prop, wt = sys.argv[1:3]
for l in open('/verif/properties.jsonl'):
    d = json.loads(l)
    if d['id'] == prop:
        break
out = ['# Property %s - %s' % (d['id'], d['title']), '', d['statement'], '', '## Quantified over', d['quantifier']['text'], '',
       '## Why the existing tests cannot settle it', d['why_tests_cant'], '', '## Anchors', 'Files: ' + ', '.join(d['anchors'].get('files', []))]
for k in ('state', 'mechanism'):
    for e in d['anchors'].get(k, []):
        out.append('- %s: %s (%s)%s' % (k, e.get('name'), e.get('where'), (' - ' + e['meaning']) if e.get('meaning') else ''))
open(wt + '/seed_out/PROPERTY.md', 'w').write('\n'.join(out) + '\n')
PY
echo "$WT"
