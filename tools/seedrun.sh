#!/bin/bash
# seedrun.sh <patch.diff> [check ids…] : apply the patch to /repo, run the quick checks, always undo.
# Evidence files and replays of /verif are saved and restored, so a seeded run leaves no trace.
P="$1"; shift
IDS="$@"; [ -z "$IDS" ] && IDS="C01 C02 C03 C04 C05 C06 C07 C08 C09 C10 C11 C12 C13 C14 C15 C16 C17 C18"
# the checks run from a snapshot of the committed /verif (so that edits in progress cannot disturb them, and
# the evidence files of /verif are not touched)
SNAP=/tmp/seedverif
if [ -z "$SEED_KEEP_SNAPSHOT" ] || [ ! -d "$SNAP" ]; then
  rm -rf "$SNAP"; mkdir -p "$SNAP"; git -C /verif archive HEAD | tar -x -C "$SNAP"
fi
export VERIF_DIR="$SNAP"
cd "$SNAP"
[ -z "$(git -C /repo status --porcelain)" ] || { echo "/repo is not clean"; exit 3; }
git -C /repo apply "$P" || { echo "patch does not apply"; exit 3; }
trap 'git -C /repo checkout -- . ; git -C /repo clean -fdq' EXIT
CAUGHT=""
for id in $IDS; do
  out=$(./check.sh $id quick 2>&1); rc=$?
  nv=$(echo "$out" | grep -c "^VIOLATION")
  echo "$id rc=$rc violations=$nv $(echo "$out" | grep -m2 "^  key:" | cut -c1-220 | tr '\n' '|')"
  [ $rc -eq 2 ] && echo "$out" | grep -m3 "HARNESS" | cut -c1-300
  [ $rc -eq 1 ] && CAUGHT="$CAUGHT $id"
done
echo "CAUGHT-BY:$CAUGHT"
