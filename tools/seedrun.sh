#!/bin/bash
# seedrun.sh <patch.diff> [check ids…] : apply the patch to a clean tree of /repo's HEAD, run the quick checks, always undo.
# The checks run from a snapshot of the committed /verif (so that edits in progress cannot disturb them and the evidence
# files of /verif are not touched).  SEED_IN_REPO=1 applies the patch to /repo itself (git -C /repo apply … ; checks ;
# git -C /repo checkout -- .); the default is a private worktree of /repo's HEAD (/tmp/seedenv/repo), which is the same
# tree but can be used while a background run or a sub-agent needs /repo untouched.
P="$1"; shift
IDS="$@"; [ -z "$IDS" ] && IDS="C01 C02 C03 C04 C05 C06 C07 C08 C09 C10 C11 C12 C13 C14 C15 C16 C17 C18"
ENVD=${SEED_ENV:-/tmp/seedenv}
SNAP=$ENVD/verif
if [ -n "$SEED_IN_REPO" ]; then RP=/repo; else RP=$ENVD/repo; fi
mkdir -p "$ENVD"
if [ "$RP" != /repo ]; then
  [ -d "$RP" ] || git -C /repo worktree add -q --detach "$RP" HEAD || exit 3
  git -C "$RP" checkout -q -- . ; git -C "$RP" clean -fdq; git -C "$RP" checkout -q --detach "$(git -C /repo rev-parse HEAD)" || exit 3
fi
if [ -z "$SEED_KEEP_SNAPSHOT" ] || [ ! -d "$SNAP" ]; then
  rm -rf "$SNAP"; mkdir -p "$SNAP"; git -C /verif archive HEAD | tar -x -C "$SNAP"
  sed -i "s#=> /repo#=> $RP#" "$SNAP/mc/go.mod" "$SNAP/third_party/goyacc/go.mod" 2>/dev/null
fi
export VERIF_DIR="$SNAP" REPO="$RP"
cd "$SNAP"
[ -z "$(git -C "$RP" status --porcelain)" ] || { echo "$RP is not clean"; exit 3; }
git -C "$RP" apply "$P" || { echo "patch does not apply"; exit 3; }
trap 'git -C "$RP" checkout -- . ; git -C "$RP" clean -fdq' EXIT
CAUGHT=""
for id in $IDS; do
  out=$(./check.sh $id quick 2>&1); rc=$?
  nv=$(echo "$out" | grep -c "^VIOLATION")
  echo "$id rc=$rc violations=$nv $(echo "$out" | grep -m2 "^  key:" | cut -c1-220 | tr '\n' '|')"
  [ $rc -eq 2 ] && echo "$out" | grep -m3 "HARNESS" | cut -c1-300
  [ $rc -eq 1 ] && CAUGHT="$CAUGHT $id"
done
echo "CAUGHT-BY:$CAUGHT"
