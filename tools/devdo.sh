#!/bin/bash
# devdo.sh <command…> : run a command of /verif/tools or check.sh from the private dev copy (/tmp/dev/verif against /tmp/dev/repo)
set -e
mkdir -p /tmp/dev/verif
[ -d /tmp/dev/repo ] || git -C /repo worktree add -q --detach /tmp/dev/repo HEAD
rsync -a --delete --exclude .build --exclude evidence --exclude replays --exclude .git --exclude seeded /verif/ /tmp/dev/verif/
mkdir -p /tmp/dev/verif/evidence /tmp/dev/verif/replays
sed -i 's#=> /repo#=> /tmp/dev/repo#' /tmp/dev/verif/mc/go.mod /tmp/dev/verif/third_party/goyacc/go.mod 2>/dev/null || true
REV=$(cat /tmp/dev/REV 2>/dev/null || git -C /repo rev-parse HEAD)
[ -n "${DEV_KEEP_REPO:-}" ] || git -C /tmp/dev/repo checkout -q --detach "$REV" 2>/dev/null || true
cd /tmp/dev/verif
VERIF_DIR=/tmp/dev/verif REPO=/tmp/dev/repo "$@"
