#!/bin/bash
# cover.sh <out-dir> <id> [tier] : diagnostic (never a verdict): run one check with a coverage-instrumented build of the
# library (go build -cover -coverpkg) and write, per file, the statements of the library that no item of the check executed.
# The cover tool does not read overlays, so the hooks are written into a scratch copy of the tree.
set -u
export GOFLAGS=-mod=mod GOPROXY=off GOSUMDB=off GOTOOLCHAIN=local
export VERIF_DIR="${VERIF_DIR:-/verif}" REPO="${REPO:-/repo}"
V="$VERIF_DIR"; B="$V/.build"; MC="$V/mc"
OUT="$1"; ID="$2"; TIER="${3:-quick}"
mkdir -p "$OUT/raw-$ID" "$B"; rm -f "$OUT/raw-$ID"/*
"$V/check.sh" C18 quick >/dev/null 2>&1 || { echo "check.sh failed"; exit 2; }   # full build: overlay, goyacc -v, automata
CR="$B/covrepo"; CM="$B/covmc"
rsync -a --delete --exclude .git "$REPO/" "$CR/"
python3 - "$B/overlay.json" "$REPO" "$CR" <<'PY'
import json, sys, os, shutil
ov, repo, cr = sys.argv[1:4]
for dst, src in json.load(open(ov))["Replace"].items():
    d = cr + dst[len(repo):]
    os.makedirs(os.path.dirname(d), exist_ok=True)
    shutil.copyfile(src, d)
PY
rsync -a --delete "$MC/" "$CM/"
sed -i "s#=> .*#=> $CR#" "$CM/go.mod"; cp "$REPO/go.sum" "$CM/go.sum" 2>/dev/null
(cd "$CM" && go build -cover -coverpkg=github.com/z7zmey/php-parser/internal/...,github.com/z7zmey/php-parser/pkg/...,github.com/z7zmey/php-parser/verifmc/cmd/check -o "$B/check-cover" ./cmd/check) || exit 2
# evidence of the real runs is not touched: the instrumented run writes into a scratch VERIF_DIR
SCR=$(mktemp -d "$B/cov.XXXXXX"); mkdir -p "$SCR/evidence" "$SCR/replays" "$SCR/.build"
cp "$V/KNOWN_FINDINGS.txt" "$SCR/"; cp "$B"/*.y.output "$SCR/.build/" 2>/dev/null
( cd "$V" && GOCOVERDIR="$OUT/raw-$ID" VERIF_DIR="$SCR" "$B/check-cover" "$ID" --tier "$TIER" ) > "$OUT/$ID.log" 2>&1
tail -3 "$OUT/$ID.log"
go tool covdata textfmt -i="$OUT/raw-$ID" -o "$OUT/$ID.cov"
rm -rf "$SCR" "$OUT/raw-$ID"
python3 "$V/tools/covreport.py" "$OUT/$ID.cov" | tail -40
