#!/bin/bash
# seedrebase.sh <id> <rebased.diff> [check ids…] : a kept change whose context was moved by a later repair of /repo — the same change
# rebased onto /repo HEAD is verified again (demo passes clean / fails with it, suite passes) and the checks are run against it.
ID="$1"; NEW="$2"; shift 2
PROP=${ID%-*}; N=${ID#*-}
SRC=/tmp/seed/$PROP/seed_out
D=/verif/seeded/$ID
mkdir -p "$SRC"
cp "$NEW" "$SRC/change$N.diff"; rm -rf "$SRC/demo$N"; cp -r "$D/demo" "$SRC/demo$N"; cp "$D/change.md" "$SRC/change$N.md"
rm -f "$D/VERIFIED"
[ $# -eq 0 ] && set -- "$PROP"
/verif/tools/seedingest.sh "$PROP" "$N" "$@" && python3 - "$D" <<'PY'
import json, sys, subprocess
d = sys.argv[1]
m = json.load(open(d + '/meta.json'))
m['rebased'] = 'patch.diff is the original change rebased onto /repo %s (a later fix: commit moved or rewrote its context lines; the change itself is the same) and verified again' % subprocess.check_output(['git', '-C', '/repo', 'rev-parse', '--short', 'HEAD']).decode().strip()
json.dump(m, open(d + '/meta.json', 'w'), indent=1)
PY
