#!/usr/bin/env python3
"""mutate.py <check-id>[,<id>…] <file-relative-to-repo> <old> <new> [--tests] [--tier quick]
Applies one textual change to /repo, runs the checks, restores the file. Prints verdict per check."""
import subprocess, sys, os
ids, rel, old, new = sys.argv[1].split(','), sys.argv[2], sys.argv[3], sys.argv[4]
old = old.encode().decode('unicode_escape'); new = new.encode().decode('unicode_escape')
p = '/repo/' + rel
orig = open(p).read()
if orig.count(old) < 1:
    print('ANCHOR NOT FOUND'); sys.exit(3)
try:
    open(p, 'w').write(orig.replace(old, new, 1))
    if '--tests' in sys.argv:
        r = subprocess.run('cd /repo && go build ./... && go test -mod=mod -vet=off -count=1 ./... 2>&1 | grep -v "^ok\\|no test files" | head -5', shell=True, capture_output=True, text=True)
        print('tests:', 'PASS' if r.stdout.strip() == '' and r.returncode == 0 else 'FAIL ' + r.stdout[:300] + r.stderr[:300])
    for i in ids:
        r = subprocess.run(['/verif/check.sh', i, 'quick'], capture_output=True, text=True)
        keys = [l.strip() for l in r.stdout.split('\n') if l.strip().startswith('key:')]
        print(i, 'exit', r.returncode, 'violations', len(keys), keys[:3], r.stderr[-300:] if r.returncode not in (0, 1) else '')
finally:
    open(p, 'w').write(orig)
    subprocess.run('cd /repo && git status --short', shell=True)
