#!/bin/bash
# devseed.sh <patch.diff> <ids…> : like seedrun.sh but in the private dev environment (/tmp/dev), for development.
P="$1"; shift
git -C /tmp/dev/repo checkout -q -- . ; git -C /tmp/dev/repo checkout -q --detach $(cat /tmp/dev/REV 2>/dev/null || git -C /repo rev-parse HEAD)
git -C /tmp/dev/repo apply "$P" || { echo "patch does not apply"; exit 3; }
trap 'git -C /tmp/dev/repo checkout -q -- .' EXIT
for id in "$@"; do
  out=$(/verif/tools/devrun.sh $id quick 2>&1); rc=$?
  echo "$id rc=$rc $(echo "$out" | grep -m3 "^  key:" | cut -c1-200 | tr '\n' '|')"
  [ $rc -eq 2 ] && echo "$out" | tail -5
done
