#!/usr/bin/env python3-vt
import json, jsonschema, glob, sys, os
V = os.path.dirname(os.path.dirname(os.path.abspath(__file__)))
ok = True
jsonschema.validate(json.load(open(V + '/MANIFEST.json')), json.load(open('/root/.vp/MANIFEST.schema.json')))
es = json.load(open('/root/.vp/EVIDENCE.schema.json'))
for f in sorted(glob.glob(V + '/evidence/*.json')):
    try:
        jsonschema.validate(json.load(open(f)), es)
    except Exception as e:
        ok = False
        print('INVALID', f, str(e)[:300])
print('valid' if ok else 'INVALID')
sys.exit(0 if ok else 1)
