#!/bin/bash
# runall.sh [quick|thorough] : every check in turn; one summary line each
cd "$(dirname "$0")/.."
T="${1:-quick}"
for id in C01 C02 C03 C04 C05 C06 C07 C08 C09 C10 C11 C12 C13 C14 C15 C16 C17 C18; do
  out=$(./check.sh $id $T 2>&1); rc=$?
  echo "$id rc=$rc $(echo "$out" | grep "^$id tier" | cut -c1-160)"
  echo "$out" | grep -A2 "^VIOLATION\|HARNESS" | cut -c1-300
done
