#!/usr/bin/env python3
"""Writes /verif/seeded/RESULTS.md from the meta.json of every kept seeded change."""
import json, glob, os
rows = []
for m in sorted(glob.glob('/verif/seeded/*/meta.json')):
    d = json.load(open(m))
    first = d['description'].strip().split('\n')
    title = next((l.strip('# ').strip() for l in first if l.strip()), '')
    own = d['breaks_property'] in d['caught_by']
    rows.append((d['id'], d['breaks_property'], title[:110], ' '.join(d['caught_by']) or '— none —', 'yes' if own else ('other checks only' if d['caught_by'] else 'NO')))
out = ['# Seeded changes and the checks that report them', '',
       'Each change was written by a fresh sub-agent that saw only the text of one property and a scratch worktree;',
       'it compiles, passes the repository\'s own suite, and comes with a demonstration that fails with it and passes',
       'without it (re-confirmed with `tools/seedverify.sh`). `tools/seedrun.sh` applied it to /repo, ran every quick check and',
       'restored the tree. "caught by" lists the checks that exited 1 with a VIOLATION line.', '',
       '| id | property | change | caught by | caught by the property\'s own check |', '|---|---|---|---|---|']
for r in rows:
    out.append('| %s | %s | %s | %s | %s |' % r)
n = len(rows); k = sum(1 for r in rows if r[4] == 'yes'); a = sum(1 for r in rows if r[3] != '— none —')
out += ['', '%d changes kept; %d reported by the check of the property they were written against, %d reported by at least one check.' % (n, k, a)]
ret = sorted(glob.glob('/verif/seeded/retired/*/meta.json'))
if ret:
    out += ['', '## Retired', '', 'Changes whose lines were later rewritten by the repair of a genuine defect (they no longer apply to /repo HEAD):', '']
    for m in ret:
        d = json.load(open(m))
        out.append('* %s — %s' % (d['id'], d['status']))
open('/verif/seeded/RESULTS.md', 'w').write('\n'.join(out) + '\n')
print('\n'.join(out[-1:]))
