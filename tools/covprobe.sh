#!/bin/bash
# covprobe.sh <dir-with-union-cov> <inputs-file> : which blocks not covered by the union profile do these inputs reach? (dev tool)
set -u
export GOFLAGS=-mod=mod GOPROXY=off GOSUMDB=off GOTOOLCHAIN=local
V="${VERIF_DIR:-/verif}"; B="$V/.build"; OUT="$1"; IN="$2"
rsync -a --delete "$V/mc/" "$B/covmc/"; sed -i "s#=> .*#=> $B/covrepo#" "$B/covmc/go.mod"; cp "${REPO:-/repo}/go.sum" "$B/covmc/go.sum"
(cd "$B/covmc" && go build -cover -coverpkg=github.com/z7zmey/php-parser/internal/...,github.com/z7zmey/php-parser/pkg/...,github.com/z7zmey/php-parser/verifmc/cmd/check -o "$B/check-cover" ./cmd/check) || exit 2
rm -rf "$OUT/raw-probe"; mkdir -p "$OUT/raw-probe"
GOCOVERDIR="$OUT/raw-probe" "$B/check-cover" debug-parse "$IN"
go tool covdata textfmt -i="$OUT/raw-probe" -o "$OUT/probe.cov"
python3 - "$OUT" <<'PY'
import sys, glob
out = sys.argv[1]
def load(ps):
    cov = {}
    for p in ps:
        for l in open(p):
            if l.startswith('mode:'): continue
            loc, n, cnt = l.rsplit(' ', 2)
            cov[loc] = max(cov.get(loc, 0), int(cnt))
    return cov
union = load([p for p in glob.glob(out + '/C*.cov')])
probe = load([out + '/probe.cov'])
new = [k for k, v in probe.items() if v > 0 and union.get(k, 0) == 0 and 'scanner.go' in k]
still = [k for k, v in union.items() if v == 0 and probe.get(k, 0) == 0 and 'scanner.go' in k]
print("blocks reached by the probe and by no check:", len(new))
for k in sorted(new)[:80]: print("  ", k)
print("scanner.go blocks still unreached:", len(still))
PY
