#!/bin/bash
# clibuild.sh : rewrite cmd/php-parser of the current tree for the cooperative scheduler and build the CLI explorer
# ($B/cli-explore). Exit 0 with $B/cli-explore present, or exit 0 with $B/cli-explore.skip holding the reason (the
# checks then skip the CLI part with a note); never a verdict by itself.
set -u
export GOFLAGS=-mod=mod GOPROXY=off GOSUMDB=off GOTOOLCHAIN=local
V="${VERIF_DIR:-/verif}"; REPO="${REPO:-/repo}"; B="$V/.build"
rm -f "$B/cli-explore.skip"
skip() { echo "$*" > "$B/cli-explore.skip"; rm -f "$B/cli-explore"; echo "cli explorer skipped: $*" >&2; exit 0; }
if [ ! -x "$B/clirewrite" ] || [ "$V/tools/clirewrite/main.go" -nt "$B/clirewrite" ]; then
  (cd "$V/tools/clirewrite" && go build -o "$B/clirewrite" .) >"$B/clirewrite.log" 2>&1 || { cat "$B/clirewrite.log" >&2; skip "clirewrite does not build"; }
fi
[ -d "$REPO/cmd/php-parser" ] || skip "no cmd/php-parser in the tree"
"$B/clirewrite" "$REPO/cmd/php-parser" "$B/ov/cli" >"$B/clirewrite-run.log" 2>&1 || skip "clirewrite failed: $(tail -1 "$B/clirewrite-run.log")"
[ -f "$B/ov/cli/UNSUPPORTED" ] && skip "constructs the scheduler cannot model: $(tr '\n' ';' < "$B/ov/cli/UNSUPPORTED")"
cp "$V/mc/clidrv/driver.go.txt" "$B/ov/cli/zz_verif_driver.go"
python3 - "$REPO" "$B" "$V" <<'PY'
import json, sys, os, glob
repo, b, v = sys.argv[1:4]
rep = {}
for f in glob.glob(b + "/ov/cli/*.go"):
    rep["%s/cmd/php-parser/%s" % (repo, os.path.basename(f))] = f
# files of the tree that the rewriter did not emit (tests, other packages) stay as they are
rep[repo + "/internal/verifhook/vrt/vrt.go"] = v + "/mc/clidrv/vrt.go.txt"
rep[repo + "/internal/verifhook/vsync/vsync.go"] = v + "/mc/clidrv/vsync.go.txt"
json.dump({"Replace": rep}, open(b + "/overlay-cli.json", "w"), indent=1)
PY
(cd "$REPO" && go build -overlay "$B/overlay-cli.json" -o "$B/cli-explore.new" ./cmd/php-parser) >"$B/cli-build.log" 2>&1 || skip "rewritten tool does not build: $(head -5 "$B/cli-build.log" | tr '\n' ' ')"
mv "$B/cli-explore.new" "$B/cli-explore"
