#!/usr/bin/env python3
"""Writes /verif/MANIFEST.json from the table below (kept here so the file always validates)."""
import json, os
V = os.path.dirname(os.path.dirname(os.path.abspath(__file__)))
props = [json.loads(l)["id"] for l in open(V + "/properties.jsonl")]

CHECKS = {
 "C18": dict(cat="exploration", tech="explicit-state history exploration of the real pools (every block size x every request count; long histories; two pools alive at once: every interleaving word) + free-running -race pass",
   text="Complete enumeration, on the real token and position pools, of every history Get^k for every block size 1..128,255..257,1023..1025 (quick) / 1..1100,2047..2049,4096 (thorough) and every k <= 3*size+2; after every Get all objects handed out so far are checked (non-nil, never seen before, no storage overlap, unique value written and every earlier value read back), then writes in reverse order. Plus long histories of 150 000 (thorough 1 500 000) requests over small and very large blocks (1..64, 1024, 20000, 70000; duplicate test on every request, full read-back at block boundaries), histories with garbage collections in the middle, every interleaving word of length 10 (thorough 14) over two pools alive at once for all size pairs in 1..4 (objects distinct across pools), and a free-running -race pass over goroutines that own their pools (sampling; complements, never decides). Block sizes and request counts beyond those listed are not explored.",
   note="Trusted: Go reflection/unsafe address arithmetic; the pool files are compiled exactly as they are in the tree (no overlay touches them).", ref="§C18"),
}
CHECKS.update({
 "C02": dict(cat="exploration", tech="exhaustive exploration of the LALR automaton's rule/2-path/3-path sentences x trivia and lexeme deviations on the real scanner+parser+printer",
   text="Every rule and every (rule, position, child rule) pair of both grammars (thorough: nullable combinations and 3-paths) is driven through the real scanner, parser and printer in baseline layout, with unique trivia in every gap, with every 1-deviation of trivia and lexeme (thorough: 2-deviations), under every version of its family, plus heads x bodies x tails, literal forms and multi-thousand-token programs under production pools; printed bytes must equal the source. Complete for the sentence sets and alphabets listed; nesting deeper than 3 rules and longer programs are not explored.",
   note="Trusted: goyacc -v output for the current grammar (sentence generator), M-lex rendering; validity of a program is decided by the real parser reporting zero errors.", ref="§C02"),
 "C04": dict(cat="exploration", tech="exhaustive exploration of LR-corpus programs x line-terminator/trivia deviations against a reference line counter, classifier and tiling oracle",
   text="Same program space as C02 plus driver-invalid sentences, large programs in LF/CRLF/CR and every byte string of <= 2 (thorough 3) symbols over the 70-symbol alphabet from 15 scanner contexts; on every returned tree every token and free-floating token is compared with the source bytes at its offsets and with a reference line counter, print order must be offset order, and error-free trees must tile the source with correctly classified trivia and leaf values equal to token text.",
   note="Trusted: reflection walk in print order (mc/astx), reference line counter and classifier (mc/lexm).", ref="§C04"),
 "C05": dict(cat="exploration", tech="exhaustive exploration of every grammar rule in every parent slot; positions recomputed from the token spans of each subtree",
   text="Every position-building action of both grammars is executed in several contexts (rules, 2-paths, nullable combinations; thorough: 3-paths and deviations) in single-line and multi-line layouts; each node's recorded span and lines are recomputed from the tokens of its own subtree with the four documented conventions; nesting and sibling order are checked; a wrong boundary is blamed on the innermost node.",
   note="Trusted: token positions (C04). Known findings: try{} end, ${a[0]} end, PHP 5 goto label (all asserted by the suite).", ref="§C05"),
 "C12": dict(cat="exploration", tech="exhaustive slot enumeration of all node kinds (depth 1 and 2) under a recording visitor vs reflection pre-order",
   text="Complete over the 155 kinds: every presence/absence assignment of child slots (lists of 1..3), with and without tokens, and every kind in every child slot of every kind (depth 2); the real traverser's callback sequence must equal the reflection pre-order. Part C: every tree the real parser returns for the widest corpus (rules, 2-paths, nullable combinations, 3-paths, pairs of positions, specials): traversal == pre-order, no node object reachable along two paths, children in source order. Complete for the shapes and programs listed.",
   note="Trusted: Go reflection; field order of pkg/ast is source order.", ref="§C12"),
 "C15": dict(cat="exploration", tech="exhaustive slot enumeration of all node kinds with unique markers through the real printer, judged against a slot vocabulary",
   text="Complete over the 155 kinds x every presence/absence assignment of token, child, value and (items, separators) slots x two printer start states: every present marker once, in order, free-floating before its token; text between markers must be glue or the canonical lexeme of an absent slot declared there. On parsed corpus trees (rules + 2-paths; thorough: widest corpus): every node replaced in turn by a marker leaf must change only that subtree's portion of the printed text.",
   note="Trusted: slot vocabulary (mc/slotm) written from the PHP manual; unknown slots are unconstrained and listed in the evidence.", ref="§C15"),
 "C16": dict(cat="exploration", tech="exhaustive field-subset enumeration of all node kinds x 4 dumper options, dump read back with go/parser and compared with a reflection walk",
   text="Complete over the 155 kinds x every subset of all fields x the four option combinations (1.7M dumps in the quick tier): the dump must parse as one Go composite literal whose type, keys and contents equal the reflection walk; the same for every parsed corpus tree (28 k dumps quick).",
   note="Trusted: go/parser, strconv.Unquote.", ref="§C16"),
})
CHECKS.update({
 "C01": dict(cat="exploration", tech="small-scope exhaustive input exploration (all strings up to n symbols x 15 scanner contexts x versions x callback) + every byte-prefix of the LR corpus + every (LALR state, terminal) cell, under a deterministic step budget",
   text="Every string of <= 3 symbols over a 70-symbol alphabet (all byte literals of scanner.rl, class representatives, mode-switching fragments) from each of 15 start contexts under 7.4/5.6/7.2 x {callback, nil} (thorough: + 4 symbols under 7.4, <= 5 symbols over the 28-symbol core), <= 2 core symbols under all 12 versions; every byte-prefix of every rule-level corpus program (thorough 2-path) in three line-terminator layouts; every (state, terminal) cell of both LALR automata; a scaling ladder. every corpus program up to pairs of rule positions; a scaling ladder. No panic, scanner restarts + Lex calls <= 64+16*len, input buffer unchanged (parses run on a write-protected mapping, so any store into the input faults), err == nil. Inputs longer than the bounds are not explored.",
   note="Trusted: the overlay hooks (Tick after `_again:`, Point in Parser.Lex) see every scanner restart; eight crash/hang root causes found by this check were repaired (fixed: lines in KNOWN_FINDINGS.txt).", ref="§C01"),
 "C10": dict(cat="exploration", tech="exhaustive exploration of the sentences both LALR automata accept (rules, 2-paths, trivia and lexeme deviations), trees under 5.6 and 7.4 compared field by field",
   text="Every program of the E-lr corpora of both grammars (+1-deviations of trivia and lexemes, specials) that both reference LR drivers accept on the tokens the real scanner returns, minus a token-level superset of uniform-variable-syntax and yield-as-operator patterns: the 5.6 and 7.4 trees must be identical in kinds, nesting, values, tokens, free-floating tokens and positions, and both error lists equal.",
   note="Trusted: the exclusion list for constructs whose meaning differs. Known findings: PHP 5 goto label span and `list()` empty item (both asserted by the suite).", ref="§C10"),
 "C13": dict(cat="exploration", tech="explicit-state history exploration: every sequence of {print, dump, dump+tokens+positions, traverse, resolve} up to a depth on every corpus tree, states = deep reflection snapshots",
   text="For every rule-level and 2-path corpus tree of both grammars (with and without trivia, trees with errors included) and ten resolver/interpolation programs: every operation sequence of length <= 3 (thorough 5) is replayed on a fresh tree; after each step the output must equal the fresh-tree output of that operation and the deep snapshot (all fields, slice len/cap, pointer graph, bytes) must be unchanged - exactly one reachable state per tree.",
   note="Trusted: reflection snapshot covers exported fields of everything reachable from the root.", ref="§C13"),
 "C17": dict(cat="exploration", tech="exhaustive exploration of LR-corpus programs (nullable combinations) x whitespace layouts x lexeme alternatives through format+print+re-parse",
   text="Every valid corpus program of both grammars (rules, 2-paths, all present/absent combinations of optional children; thorough 3-paths) in four whitespace layouts and with every alternative lexeme: format+print must not panic, must re-parse without errors to the same structural fingerprint, be idempotent, and be identical across layouts.",
   note="Known finding: programs that leave PHP mode (inline HTML, close tag, halt-compiler tail, shebang) re-parse with extra/missing StmtNop/StmtInlineHtml; ten formatter defects found by this check were repaired.", ref="§C17"),
})
CHECKS.update({
 "C03": dict(cat="model_checking", tech="exhaustive enumeration of LALR-automaton sentences, of all flat operator expressions up to n operators, of if/else nestings and of construct schemas, each replayed on the real parser and compared with independent reference models (LR driver, precedence-climbing operator model, schema table)",
   text="A: every corpus sentence the reference LR driver accepts (both grammars, all family versions) and every alternative lexeme of every token: zero errors, token texts allowed by the slot vocabulary, keyword case/cast spellings give the same tree. B: every flat expression with <= 3 operators (thorough 4) over the full operator set under 7.4 and 5.6 against an independent operator-precedence model (grouping and rejections). C: ~190 hand-written construct/literal schemas with expected role-labelled trees. D: every brace-less if/else nesting to depth 3 (4). F: 22 version-gated constructs under 10 versions. Programs outside these enumerations are not covered.",
   note="Trusted: M-syn (mc/synm) as a transcription of the PHP manual. Known findings (scanner rules that need ragel): 0X/0B prefixes, b'x', \"$a->b->c\", <<<A + lone CR; nested short list kind.", ref="§C03"),
 "C06": dict(cat="model_checking", tech="explicit-state exploration of both LALR automata: every (state, terminal) action cell driven on the real parser and compared with a reference LR driver; exhaustive bracket edits of corpus programs; E-bytes for error shape and callback independence",
   text="Every (state, terminal) cell of both automata (1 tail; thorough 3): driver-invalid => >= 1 error. Every single-bracket insertion/deletion/truncation of every corpus program whose token string becomes unbalanced => >= 1 error. Zero errors => non-nil root that tiles the source. Every delivered error (also on all E-bytes inputs <= 2/3 symbols) has a message, an in-range position with reference lines that selects a scanner token or the offending byte, and positions are non-decreasing. Trees with and without callback are identical.",
   note="Trusted: goyacc -v automaton of the current grammar; bracket-balance lemma is re-checked on the rules at run time.", ref="§C06"),
 "C07": dict(cat="exploration", tech="exhaustive enumeration of statement lists x malformed-statement menu x insertion position x 6 contexts, plus all LR error cells and E-bytes inputs, on the real parser and printer",
   text="Statement lists S1 [S2 [S3]] over every statement form, in 6 contexts, with each of 16 malformed statements at every boundary: the statements before the error are identical (tokens and positions included) to parsing the prefix alone and the parse reaches the end of input; on every recovered tree (also from all LR error cells and E-bytes inputs) tokens hold source text at increasing offsets and the printed text is exactly those tokens in order plus printer glue.",
   note="Which statements after the malformed one survive is not demanded.", ref="§C07"),
 "C08": dict(cat="exploration", tech="exhaustive 1-deviation (thorough 2-deviation) trivia exploration of the LR corpus against the baseline layout's structural fingerprint",
   text="Every valid corpus program of both grammars: every single gap set to each of 18 trivia (blanks, LF, CRLF, lone CR, all comment styles, deletion), unique comments in every gap, six whole-program layouts (thorough: pairs of neighbouring gaps, nullable combinations, 3-paths) plus 50 hand-written delicate pairs: zero errors and the same structural fingerprint as the baseline.",
   note="Known findings (need ragel): lone CR between tokens, comments inside __halt_compiler ( ) ;, comment between `;` and `?>`.", ref="§C08"),
 "C09": dict(cat="exploration", tech="exhaustive enumeration of version pairs, version strings up to n symbols, and all-versions differential parsing of E-bytes/corpus/heredoc inputs",
   text="All 324 (major, minor) pairs over boundary numbers: accepted iff in 5.0-5.6 or 7.0-7.4 (else nil tree + ErrVersionOutOfRange), Validate agrees, Compare and friends are the numeric order; every version string of <= 3 symbols (thorough 4) over 19 symbols parses iff digits.digits < 2^64; every E-bytes input (<= 2/3 symbols x 15 contexts), corpus program, special and 2496 heredoc shapes gives identical trees and errors within {5.0..5.6}, {7.0..7.2}, {7.3, 7.4, omitted}.",
   note="", ref="§C09"),
})
CHECKS.update({
 "C11": dict(cat="exploration", tech="stateless model checking: bounded-preemption depth-first enumeration of all schedules of 2-3 real pipelines under a cooperative scheduler with hooked yield points; free-running -race pass as a complement",
   text="13 two-pipeline scenarios (and one three-pipeline scenario) of parse -> print -> dump -> resolve on goroutines under a cooperative scheduler: ALL schedules with <= 1 preemption over every yield point (Lex calls, scanner restarts, error callbacks, every printer/dumper write, resolver enter/leave) and ALL schedules with <= 2 preemptions over the coarser point set; every observation of every pipeline must equal its sequential baseline; plus all sequential histories of <= 3 pipelines over 18 programs (the last result must not depend on its predecessors). Thorough adds three longer pipelines, bound 3 on short programs and bound 2 over all points. More than 3 pipelines and interference between yield points are not explored (the latter is sampled by the -race pass).",
   note="Trusted: the overlay hooks see every Lex call and scanner restart. The -race pass (16 goroutines x 6 rounds x 89 pipelines, results compared with sequential baselines) is sampling.", ref="§C11"),
 "C14": dict(cat="model_checking", tech="exhaustive enumeration of the reference name-resolution model's program space (namespace forms x import sets and pairs x reference positions x name forms), each program replayed on the real parser+resolver and compared entry by entry",
   text="9 namespace forms x (18 import sets + all compatible ordered pairs) x 40 reference positions x 35 names under 7.4 and 5.6, plus multi-reference programs: ResolvedNames must contain exactly the entries the reference resolver (a transcription of the manual's name resolution rules) predicts - missing, wrong and extra entries are all violations.",
   note="Trusted: mc/nsm as a transcription of the PHP manual's name resolution rules. One defect (arrow function types unresolved) was repaired.", ref="§C14"),
})
NA = {}

checks = []
for p in props:
    if p in CHECKS:
        c = CHECKS[p]
        checks.append({
            "property_id": p,
            "quick_cmd": "./check.sh %s quick" % p,
            "thorough_cmd": "./check.sh %s thorough" % p,
            "evidence_file": "/verif/evidence/%s.json" % p,
            "replay_cmd_template": "./check.sh %s quick --replay {path}" % p,
            "engine": "mc",
            "level_claimed": {"category": c["cat"], "text": c["text"], "design_ref": c["ref"]},
            "level_note": c["note"],
            "technique": c["tech"],
        })
na = [{"property_id": p, "reason": NA.get(p, "check not built yet (work in progress; see DESIGN.md §7 build order)")} for p in props if p not in CHECKS]
m = {
 "version": 1,
 "setup_cmd": "./setup.sh",
 "hooks": {
   "guard": "go build -overlay (generated by tools/prep.py from the current tree; no hook commits in /repo)",
   "enable": "check.sh regenerates .build/overlay.json from /repo's working tree and builds the checker with `go build -overlay`: verifhook.P() as first statement of (*Parser).Lex in internal/php5 and internal/php7, verifhook.T() after the `_again:` label of internal/scanner/scanner.go, the block-size argument of the NewPool call sites in internal/scanner/lexer.go and internal/position/position.go wrapped in verifhook.BlockSize(), virtual package internal/verifhook",
   "baseline_off_cmd": "cd /repo && go test -mod=mod -vet=off -count=1 -timeout 25m ./...",
   "source_commits": [],
   "add_only": True,
 },
 "engines": [{"name": "mc", "path": "/verif/mc", "serves_properties": sorted(CHECKS), "kind_free_text": "hand-written explicit-state / small-scope exhaustive explorer in Go, driving the real scanner, parsers and visitors; reference models (LR driver from goyacc -v, Pratt operator model, name-resolution model) in Go"}],
 "checks": checks,
 "not_applicable": na,
 "notes": "All checks rebuild from /repo's working tree on every run (check.sh). KNOWN_FINDINGS.txt lists recorded genuine defects. See DESIGN.md.",
}
json.dump(m, open(V + "/MANIFEST.json", "w"), indent=1)
print("MANIFEST.json: %d checks, %d not_applicable" % (len(checks), len(na)))
