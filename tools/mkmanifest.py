#!/usr/bin/env python3
"""Writes /verif/MANIFEST.json from the table below (kept here so the file always validates)."""
import json, os
V = os.path.dirname(os.path.dirname(os.path.abspath(__file__)))
props = [json.loads(l)["id"] for l in open(V + "/properties.jsonl")]

CHECKS = {
 "C18": dict(cat="exploration", tech="explicit-state history exploration of the real pools (every block size x every request count)",
   text="Complete enumeration, on the real token and position pools, of every history Get^k for every block size 1..128,255..257,1023..1025 (quick) / 1..1100,2047..2049,4096 (thorough) and every k <= 3*size+2; after every Get all objects handed out so far are checked for nil, identity, storage overlap and read-back against a reference slice. Complete for the sizes listed; sizes beyond are not explored.",
   note="Trusted: Go reflection/unsafe address arithmetic; the overlay only turns the DefaultBlockSize constants into variables.", ref="§C18"),
}
CHECKS.update({
 "C02": dict(cat="exploration", tech="exhaustive exploration of the LALR automaton's rule/2-path/3-path sentences x trivia and lexeme deviations on the real scanner+parser+printer",
   text="Every rule and every (rule, position, child rule) pair of both grammars (thorough: nullable combinations and 3-paths) is driven through the real scanner, parser and printer in baseline layout, with unique trivia in every gap, with every 1-deviation of trivia and lexeme (thorough: 2-deviations), under every version of its family, plus heads x bodies x tails, literal forms and multi-thousand-token programs under production pools; printed bytes must equal the source. Complete for the sentence sets and alphabets listed; nesting deeper than 3 rules and longer programs are not explored.",
   note="Trusted: goyacc -v output for the current grammar (sentence generator), M-lex rendering; validity of a program is decided by the real parser reporting zero errors.", ref="§C02"),
 "C04": dict(cat="exploration", tech="exhaustive exploration of LR-corpus programs x line-terminator/trivia deviations against a reference line counter, classifier and tiling oracle",
   text="Same program space as C02 plus driver-invalid sentences, large programs in LF/CRLF/CR and short byte strings; on every returned tree every token and free-floating token is compared with the source bytes at its offsets and with a reference line counter, print order must be offset order, and error-free trees must tile the source with correctly classified trivia and leaf values equal to token text.",
   note="Trusted: reflection walk in print order (mc/astx), reference line counter and classifier (mc/lexm).", ref="§C04"),
 "C05": dict(cat="exploration", tech="exhaustive exploration of every grammar rule in every parent slot; positions recomputed from the token spans of each subtree",
   text="Every position-building action of both grammars is executed in several contexts (rules, 2-paths, nullable combinations; thorough: 3-paths and deviations) in single-line and multi-line layouts; each node's recorded span and lines are recomputed from the tokens of its own subtree with the four documented conventions; nesting and sibling order are checked; a wrong boundary is blamed on the innermost node.",
   note="Trusted: token positions (C04). Known findings: try{} end, ${a[0]} end, PHP 5 goto label (all asserted by the suite).", ref="§C05"),
 "C12": dict(cat="exploration", tech="exhaustive slot enumeration of all node kinds (depth 1 and 2) under a recording visitor vs reflection pre-order",
   text="Complete over the 155 kinds: every presence/absence assignment of child slots (lists of 1..3), with and without tokens, and every kind in every child slot of every kind (depth 2); the real traverser's callback sequence must equal the reflection pre-order. Complete for the tree shapes listed; parsed corpus trees are added as a further slice.",
   note="Trusted: Go reflection; field order of pkg/ast is source order.", ref="§C12"),
 "C15": dict(cat="exploration", tech="exhaustive slot enumeration of all node kinds with unique markers through the real printer, judged against a slot vocabulary",
   text="Complete over the 155 kinds x every presence/absence assignment of token, child, value and (items, separators) slots x two printer start states: every present marker once, in order, free-floating before its token; text between markers must be glue or the canonical lexeme of an absent slot declared there.",
   note="Trusted: slot vocabulary (mc/slotm) written from the PHP manual; unknown slots are unconstrained and listed in the evidence.", ref="§C15"),
 "C16": dict(cat="exploration", tech="exhaustive field-subset enumeration of all node kinds x 4 dumper options, dump read back with go/parser and compared with a reflection walk",
   text="Complete over the 155 kinds x every subset of all fields x the four option combinations (1.7M dumps in the quick tier): the dump must parse as one Go composite literal whose type, keys and contents equal the reflection walk.",
   note="Trusted: go/parser, strconv.Unquote.", ref="§C16"),
})
NA = {}

checks = []
for p in props:
    if p in CHECKS:
        c = CHECKS[p]
        checks.append({
            "property_id": p,
            "quick_cmd": "./check.sh %s quick" % p,
            "thorough_cmd": "./check.sh %s thorough" % p,
            "evidence_file": "/verif/evidence/%s.json" % p,
            "replay_cmd_template": "./check.sh %s quick --replay {path}" % p,
            "engine": "mc",
            "level_claimed": {"category": c["cat"], "text": c["text"], "design_ref": c["ref"]},
            "level_note": c["note"],
            "technique": c["tech"],
        })
na = [{"property_id": p, "reason": NA.get(p, "check not built yet (work in progress; see DESIGN.md §7 build order)")} for p in props if p not in CHECKS]
m = {
 "version": 1,
 "setup_cmd": "./setup.sh",
 "hooks": {
   "guard": "go build -overlay (generated by tools/prep.py from the current tree; no hook commits in /repo)",
   "enable": "check.sh regenerates .build/overlay.json from /repo's working tree and builds the checker with `go build -overlay`: verifhook.P() as first statement of (*Parser).Lex in internal/php5 and internal/php7, verifhook.T() after the `_again:` label of internal/scanner/scanner.go, DefaultBlockSize const->var in both pools, virtual package internal/verifhook",
   "baseline_off_cmd": "cd /repo && go test -mod=mod -vet=off -count=1 -timeout 25m ./...",
   "source_commits": [],
   "add_only": True,
 },
 "engines": [{"name": "mc", "path": "/verif/mc", "serves_properties": sorted(CHECKS), "kind_free_text": "hand-written explicit-state / small-scope exhaustive explorer in Go, driving the real scanner, parsers and visitors; reference models (LR driver from goyacc -v, Pratt operator model, name-resolution model) in Go"}],
 "checks": checks,
 "not_applicable": na,
 "notes": "All checks rebuild from /repo's working tree on every run (check.sh). KNOWN_FINDINGS.txt lists recorded genuine defects. See DESIGN.md.",
}
json.dump(m, open(V + "/MANIFEST.json", "w"), indent=1)
print("MANIFEST.json: %d checks, %d not_applicable" % (len(checks), len(na)))
