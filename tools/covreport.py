#!/usr/bin/env python3
"""covreport.py a.cov [b.cov…] [--lines file-suffix] : union of go cover profiles; per file executed/total statements;
with --lines: the uncovered blocks of the files whose path ends in the suffix."""
import sys, collections
args = sys.argv[1:]
want = None
if '--lines' in args:
    i = args.index('--lines'); want = args[i + 1]; args = args[:i] + args[i + 2:]
blocks = {}
for p in args:
    for l in open(p):
        if l.startswith('mode:'): continue
        loc, n, cnt = l.rsplit(' ', 2)
        k = loc
        blocks[k] = (int(n), max(blocks.get(k, (0, 0))[1], int(cnt)))
per = collections.defaultdict(lambda: [0, 0])
unc = collections.defaultdict(list)
for k, (n, cnt) in blocks.items():
    f, rng = k.rsplit(':', 1)
    per[f][1] += n
    if cnt > 0: per[f][0] += n
    else: unc[f].append(rng)
for f in sorted(per):
    e, t = per[f]
    print('%6d/%6d %5.1f%%  %s' % (e, t, 100.0 * e / max(t, 1), f))
if want:
    for f in sorted(unc):
        if f.endswith(want):
            def key(r):
                a = r.split(',')[0].split('.'); return (int(a[0]), int(a[1]))
            for r in sorted(unc[f], key=key): print(f, r)
