#!/bin/bash
# seedrerun.sh [all|own] [seed ids…] : re-run the kept seeded changes against the committed checks and refresh meta.json
# (own = the check of the property the change was written against plus the checks that reported it before; all = every check).
cd /verif
MODE="${1:-own}"; shift
SEEDS="$@"; [ -z "$SEEDS" ] && SEEDS=$(ls seeded | grep -E '^C[0-9]+-[0-9]+$')
rm -rf /tmp/seedenv/verif
export SEED_KEEP_SNAPSHOT=1
for s in $SEEDS; do
  D=/verif/seeded/$s
  [ -f "$D/patch.diff" ] || continue
  prop=${s%%-*}
  if [ "$MODE" = all ]; then ids=""; else
    ids=$(python3 -c "
import json,sys,os
p='$D/meta.json'
c=json.load(open(p)).get('caught_by',[]) if os.path.exists(p) else []
print(' '.join(sorted(set(['$prop']+c))))")
  fi
  run=$(tools/seedrun.sh "$D/patch.diff" $ids 2>&1)
  echo "$run" > "$D/checks.log"
  python3 - "$prop" "$s" "$D" <<'PY'
import sys, json, re, os
prop, sid, dst = sys.argv[1:4]
log = open(dst + '/checks.log').read()
m = re.search(r'CAUGHT-BY:(.*)', log)
if not m:
    print(sid, 'RUN FAILED:', log[-300:]); sys.exit(0)
caught = m.group(1).split()
keys = {}
for line in log.split('\n'):
    mm = re.match(r'(C\d\d) rc=1 violations=(\d+) (.*)', line)
    if mm:
        keys[mm.group(1)] = {'violation_classes': int(mm.group(2)), 'first_keys': [k.strip() for k in mm.group(3).split('|') if k.strip()]}
mp = dst + '/meta.json'
if os.path.exists(mp):
    meta = json.load(open(mp))
else:
    md = open(dst + '/change.md').read()
    meta = {'id': sid, 'breaks_property': prop,
      'origin': 'written by a fresh sub-agent that saw only the text of the property and a scratch worktree',
      'description': md[:1500],
      'verified': 'tools/seedverify.sh: in a scratch worktree of /repo HEAD the demonstration passes on the clean tree, the patch applies, go build ./... succeeds, the demonstration fails with the patch, and the full suite (go test -mod=mod -vet=off -count=1 ./...) passes with the patch',
      'checks_run': 'tools/seedrun.sh: patch applied to a clean tree of /repo HEAD (private worktree; SEED_IN_REPO=1: /repo itself); ./check.sh <id> quick for the ids in checks.log from a snapshot of the committed /verif; tree restored'}
meta['caught_by'] = caught; meta['reports'] = keys
json.dump(meta, open(mp, 'w'), indent=1)
print(sid, 'caught by:', ' '.join(caught) or 'NONE')
PY
done
python3 tools/seedresults.py
