#!/bin/bash
# devrun.sh <id> [quick|thorough] [args…] : run a check from a private copy of /verif against a private clean worktree of
# /repo (/tmp/dev/repo), so that development can go on while /repo itself carries a seeded patch.
set -e
mkdir -p /tmp/dev/verif
rsync -a --delete --exclude .build --exclude evidence --exclude replays --exclude .git --exclude seeded /verif/ /tmp/dev/verif/
mkdir -p /tmp/dev/verif/evidence /tmp/dev/verif/replays
sed -i 's#=> /repo#=> /tmp/dev/repo#' /tmp/dev/verif/mc/go.mod /tmp/dev/verif/third_party/goyacc/go.mod 2>/dev/null || true
REV=$(cat /tmp/dev/REV 2>/dev/null || git -C /repo rev-parse HEAD)   # /tmp/dev/REV: a pending fix commit not yet on main
git -C /tmp/dev/repo checkout -q --detach "$REV" 2>/dev/null || true
cd /tmp/dev/verif
VERIF_DIR=/tmp/dev/verif REPO=/tmp/dev/repo ./check.sh "$@"
