#!/bin/bash
# devrun.sh <id> [quick|thorough] [args…] : run a check from a private copy of /verif against a private clean worktree of
# /repo (/tmp/dev/repo), so that development can go on while /repo itself carries a seeded patch.
set -e
mkdir -p /tmp/dev/verif
rsync -a --delete --exclude .build --exclude evidence --exclude replays --exclude .git --exclude seeded /verif/ /tmp/dev/verif/
mkdir -p /tmp/dev/verif/evidence /tmp/dev/verif/replays
sed -i 's#=> /repo#=> /tmp/dev/repo#' /tmp/dev/verif/mc/go.mod /tmp/dev/verif/third_party/goyacc/go.mod 2>/dev/null || true
git -C /tmp/dev/repo checkout -q --detach $(git -C /repo rev-parse HEAD) 2>/dev/null || true
cd /tmp/dev/verif
VERIF_DIR=/tmp/dev/verif REPO=/tmp/dev/repo ./check.sh "$@"
