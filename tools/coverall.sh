#!/bin/bash
# coverall.sh <out-dir> [tier] : cover.sh for every check; then the union report
OUT="$1"; TIER="${2:-quick}"
for id in C01 C02 C03 C04 C05 C06 C07 C08 C09 C10 C11 C12 C13 C14 C15 C16 C17 C18; do
  "$(dirname "$0")/cover.sh" "$OUT" $id $TIER > "$OUT/$id.report" 2>&1
  echo "$id done: $(grep "^$id tier" "$OUT/$id.log" | cut -c1-120)"
done
python3 "$(dirname "$0")/covreport.py" "$OUT"/C*.cov | grep -v verifmc > "$OUT/union.report"
cat "$OUT/union.report"
