module clirewrite

go 1.21
