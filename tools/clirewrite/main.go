// clirewrite SRC_DIR OUT_DIR
//
// Source-to-source transformation of the command-line tool (package main in SRC_DIR, read from the current
// tree) for exploration under the cooperative scheduler of package vrt:
//
//   - import "sync"            -> the scheduler-aware shim vsync (same API)
//   - go f(a, b)               -> { _f, _a0, _a1 := f, a, b; vrt.Go(func() { _f(_a0, _a1) }) }
//   - ch <- v                  -> vrt.BeforeSend(ch); ch <- v
//   - ... <-ch ...             -> vrt.BeforeRecv(ch); the statement
//   - for x := range ch {…}    -> for { vrt.BeforeRecv(ch); x, ok := <-ch; if !ok { break }; … }   (ch syntactically a channel)
//   - close(ch)                -> vrt.Closing(ch); close(ch)
//   - os.Exit(n), log.Fatal(…) -> vrt.Exit(n), vrt.Fatal(…)
//   - func main()              -> func verifMain()
//   - func verifResetGlobals() : re-initialises every package-level variable (state must not leak between executions)
//
// Constructs that cannot be modelled (select, channel operations in loop headers) are listed in OUT_DIR/UNSUPPORTED;
// the explorer then does not judge the tool (no verdict is better than a wrong one).
package main

import (
	"bytes"
	"fmt"
	"go/ast"
	"go/format"
	"go/parser"
	"go/token"
	"os"
	"path/filepath"
	"sort"
	"strings"
)

const (
	vrtPath   = "github.com/z7zmey/php-parser/internal/verifhook/vrt"
	vsyncPath = "github.com/z7zmey/php-parser/internal/verifhook/vsync"
)

var unsupported []string
var fset = token.NewFileSet()
var chanNames = map[string]bool{}
var tmpN int

func pos(n ast.Node) string { p := fset.Position(n.Pos()); return fmt.Sprintf("%s:%d", filepath.Base(p.Filename), p.Line) }

func call(fn string, args ...ast.Expr) *ast.ExprStmt {
	return &ast.ExprStmt{X: &ast.CallExpr{Fun: &ast.SelectorExpr{X: ast.NewIdent("vrt"), Sel: ast.NewIdent(fn)}, Args: args}}
}

// recvChans: the channel operands of every receive expression inside n (not descending into function literals).
func recvChans(n ast.Node) (chs []ast.Expr) {
	ast.Inspect(n, func(m ast.Node) bool {
		switch v := m.(type) {
		case *ast.FuncLit:
			return false
		case *ast.UnaryExpr:
			if v.Op == token.ARROW {
				chs = append(chs, v.X)
			}
		}
		return true
	})
	return
}

func isChanExpr(e ast.Expr) bool {
	if id, ok := e.(*ast.Ident); ok {
		return chanNames[id.Name]
	}
	return false
}

// collectChanNames: identifiers declared with a channel type or initialised with make(chan …).
func collectChanNames(f *ast.File) {
	ast.Inspect(f, func(n ast.Node) bool {
		switch v := n.(type) {
		case *ast.Field:
			if _, ok := v.Type.(*ast.ChanType); ok {
				for _, nm := range v.Names {
					chanNames[nm.Name] = true
				}
			}
		case *ast.ValueSpec:
			if _, ok := v.Type.(*ast.ChanType); ok {
				for _, nm := range v.Names {
					chanNames[nm.Name] = true
				}
			}
			for i, val := range v.Values {
				if isMakeChan(val) && i < len(v.Names) {
					chanNames[v.Names[i].Name] = true
				}
			}
		case *ast.AssignStmt:
			for i, val := range v.Rhs {
				if isMakeChan(val) && i < len(v.Lhs) {
					if id, ok := v.Lhs[i].(*ast.Ident); ok {
						chanNames[id.Name] = true
					}
				}
			}
		}
		return true
	})
}

func isMakeChan(e ast.Expr) bool {
	c, ok := e.(*ast.CallExpr)
	if !ok || len(c.Args) == 0 {
		return false
	}
	if id, ok := c.Fun.(*ast.Ident); !ok || id.Name != "make" {
		return false
	}
	_, ok = c.Args[0].(*ast.ChanType)
	return ok
}

// rewriteList rewrites one statement list.
func rewriteList(list []ast.Stmt) []ast.Stmt {
	var out []ast.Stmt
	for _, s := range list {
		out = append(out, rewriteStmt(s)...)
	}
	return out
}

func rewriteBlock(b *ast.BlockStmt) {
	if b != nil {
		b.List = rewriteList(b.List)
	}
}

// guards for the receive expressions evaluated by the statement itself (not by nested blocks)
func headerRecvs(parts ...ast.Node) (g []ast.Stmt) {
	for _, p := range parts {
		if p == nil || isNilNode(p) {
			continue
		}
		for _, ch := range recvChans(p) {
			g = append(g, call("BeforeRecv", ch))
		}
	}
	return
}

func isNilNode(n ast.Node) bool {
	switch v := n.(type) {
	case ast.Expr:
		return v == nil
	case ast.Stmt:
		return v == nil
	}
	return false
}

func rewriteFuncLits(n ast.Node) {
	if n == nil || isNilNode(n) {
		return
	}
	ast.Inspect(n, func(m ast.Node) bool {
		if fl, ok := m.(*ast.FuncLit); ok {
			rewriteBlock(fl.Body)
			return false
		}
		return true
	})
}

func rewriteStmt(s ast.Stmt) []ast.Stmt {
	switch v := s.(type) {
	case *ast.GoStmt:
		rewriteFuncLits(v.Call)
		tmpN++
		var lhs, rhs []ast.Expr
		fn := ast.NewIdent(fmt.Sprintf("_vf%d", tmpN))
		lhs, rhs = append(lhs, fn), append(rhs, v.Call.Fun)
		var args []ast.Expr
		for i, a := range v.Call.Args {
			id := ast.NewIdent(fmt.Sprintf("_va%d_%d", tmpN, i))
			lhs, rhs = append(lhs, id), append(rhs, a)
			args = append(args, id)
		}
		inner := &ast.CallExpr{Fun: fn, Args: args, Ellipsis: v.Call.Ellipsis}
		if v.Call.Ellipsis == token.NoPos {
			inner.Ellipsis = token.NoPos
		}
		lit := &ast.FuncLit{Type: &ast.FuncType{Params: &ast.FieldList{}}, Body: &ast.BlockStmt{List: []ast.Stmt{&ast.ExprStmt{X: inner}}}}
		return []ast.Stmt{&ast.BlockStmt{List: []ast.Stmt{
			&ast.AssignStmt{Lhs: lhs, Tok: token.DEFINE, Rhs: rhs},
			call("Go", lit),
		}}}
	case *ast.SendStmt:
		rewriteFuncLits(v.Value)
		g := headerRecvs(v.Value)
		return append(append(g, call("BeforeSend", v.Chan)), v, call("AfterSend", v.Chan))
	case *ast.ExprStmt:
		rewriteFuncLits(v.X)
		if c, ok := v.X.(*ast.CallExpr); ok {
			if id, ok := c.Fun.(*ast.Ident); ok && id.Name == "close" && len(c.Args) == 1 {
				return []ast.Stmt{call("Closing", c.Args[0]), v}
			}
		}
		return append(headerRecvs(v.X), v)
	case *ast.AssignStmt:
		for _, r := range v.Rhs {
			rewriteFuncLits(r)
		}
		var g []ast.Stmt
		for _, r := range v.Rhs {
			g = append(g, headerRecvs(r)...)
		}
		for _, l := range v.Lhs {
			g = append(g, headerRecvs(l)...)
		}
		return append(g, v)
	case *ast.DeclStmt:
		rewriteFuncLits(v)
		return append(headerRecvs(v), v)
	case *ast.ReturnStmt:
		rewriteFuncLits(v)
		return append(headerRecvs(v), v)
	case *ast.IncDecStmt, *ast.BranchStmt, *ast.EmptyStmt:
		return []ast.Stmt{s}
	case *ast.DeferStmt:
		rewriteFuncLits(v.Call)
		return append(headerRecvs(v.Call), v)
	case *ast.BlockStmt:
		rewriteBlock(v)
		return []ast.Stmt{v}
	case *ast.LabeledStmt:
		inner := rewriteStmt(v.Stmt)
		if len(inner) == 1 {
			v.Stmt = inner[0]
			return []ast.Stmt{v}
		}
		// guards go before the label's statement; a `continue label` would skip them: only accept non-loops
		switch v.Stmt.(type) {
		case *ast.ForStmt, *ast.RangeStmt:
			unsupported = append(unsupported, pos(v)+": channel operation in the header of a labelled loop")
			return []ast.Stmt{v}
		}
		v.Stmt = inner[len(inner)-1]
		return append(inner[:len(inner)-1], v)
	case *ast.IfStmt:
		var g []ast.Stmt
		if v.Init != nil {
			if _, ok := v.Init.(*ast.SendStmt); ok {
				unsupported = append(unsupported, pos(v)+": send in an if header")
			}
			rewriteFuncLits(v.Init)
			g = append(g, headerRecvs(v.Init)...)
		}
		rewriteFuncLits(v.Cond)
		g = append(g, headerRecvs(v.Cond)...)
		rewriteBlock(v.Body)
		if v.Else != nil {
			e := rewriteStmt(v.Else)
			if len(e) == 1 {
				v.Else = e[0]
			} else {
				v.Else = &ast.BlockStmt{List: e}
			}
		}
		return append(g, v)
	case *ast.ForStmt:
		if len(headerRecvs(v.Cond, v.Post)) > 0 {
			unsupported = append(unsupported, pos(v)+": receive in a for condition/post statement")
		}
		if v.Post != nil {
			if _, ok := v.Post.(*ast.SendStmt); ok {
				unsupported = append(unsupported, pos(v)+": send in a for post statement")
			}
		}
		var g []ast.Stmt
		if v.Init != nil {
			rewriteFuncLits(v.Init)
			g = headerRecvs(v.Init)
		}
		rewriteFuncLits(v.Cond)
		rewriteBlock(v.Body)
		return append(g, v)
	case *ast.RangeStmt:
		rewriteFuncLits(v.X)
		rewriteBlock(v.Body)
		if isChanExpr(v.X) {
			// for k := range ch { body }  ->  for { BeforeRecv(ch); k, ok := <-ch; if !ok { break }; body }
			tmpN++
			okId := ast.NewIdent(fmt.Sprintf("_vok%d", tmpN))
			var key ast.Expr = ast.NewIdent("_")
			tok := token.DEFINE
			if v.Key != nil {
				key = v.Key
				tok = v.Tok
				if tok == token.ILLEGAL {
					tok = token.DEFINE
				}
			}
			var recv ast.Stmt
			if tok == token.ASSIGN {
				// k is an existing variable: declare ok separately
				recv = &ast.BlockStmt{}
				unsupported = append(unsupported, pos(v)+": range over a channel assigning to an existing variable")
			} else {
				recv = &ast.AssignStmt{Lhs: []ast.Expr{key, okId}, Tok: token.DEFINE, Rhs: []ast.Expr{&ast.UnaryExpr{Op: token.ARROW, X: v.X}}}
			}
			body := []ast.Stmt{call("BeforeRecv", v.X), recv,
				&ast.IfStmt{Cond: &ast.UnaryExpr{Op: token.NOT, X: okId}, Body: &ast.BlockStmt{List: []ast.Stmt{&ast.BranchStmt{Tok: token.BREAK}}}}}
			body = append(body, v.Body.List...)
			return []ast.Stmt{&ast.ForStmt{Body: &ast.BlockStmt{List: body}}}
		}
		return append(headerRecvs(v.X), v)
	case *ast.SwitchStmt:
		var g []ast.Stmt
		if v.Init != nil {
			rewriteFuncLits(v.Init)
			g = append(g, headerRecvs(v.Init)...)
		}
		if v.Tag != nil {
			rewriteFuncLits(v.Tag)
			g = append(g, headerRecvs(v.Tag)...)
		}
		for _, c := range v.Body.List {
			cc := c.(*ast.CaseClause)
			for _, e := range cc.List {
				if len(recvChans(e)) > 0 {
					unsupported = append(unsupported, pos(cc)+": receive in a case expression")
				}
			}
			cc.Body = rewriteList(cc.Body)
		}
		return append(g, v)
	case *ast.TypeSwitchStmt:
		var g []ast.Stmt
		if v.Init != nil {
			g = append(g, headerRecvs(v.Init)...)
		}
		g = append(g, headerRecvs(v.Assign)...)
		for _, c := range v.Body.List {
			cc := c.(*ast.CaseClause)
			cc.Body = rewriteList(cc.Body)
		}
		return append(g, v)
	case *ast.SelectStmt:
		// select { case v := <-a: A; case b <- x: B; default: D }  ->
		// switch vrt.Select(true, vrt.SelCase{false, a}, vrt.SelCase{true, b}) { case 0: v := <-a; A; case 1: b <- x; vrt.AfterSend(b); B; default: D }
		hasDefault := false
		var args []ast.Expr
		var clauses []ast.Stmt
		idx := 0
		for _, cl := range v.Body.List {
			cc := cl.(*ast.CommClause)
			body := rewriteList(cc.Body)
			if cc.Comm == nil {
				hasDefault = true
				clauses = append(clauses, &ast.CaseClause{Body: body})
				continue
			}
			var ch ast.Expr
			send := "false"
			pre := []ast.Stmt{cc.Comm}
			switch comm := cc.Comm.(type) {
			case *ast.SendStmt:
				ch, send = comm.Chan, "true"
				pre = append(pre, call("AfterSend", comm.Chan))
			case *ast.ExprStmt:
				if chs := recvChans(comm.X); len(chs) == 1 {
					ch = chs[0]
				}
			case *ast.AssignStmt:
				if len(comm.Rhs) == 1 {
					if chs := recvChans(comm.Rhs[0]); len(chs) == 1 {
						ch = chs[0]
					}
				}
			}
			if ch == nil {
				unsupported = append(unsupported, pos(cc)+": select clause that is neither a send nor a single receive")
				return []ast.Stmt{v}
			}
			args = append(args, &ast.CompositeLit{Type: &ast.SelectorExpr{X: ast.NewIdent("vrt"), Sel: ast.NewIdent("SelCase")},
				Elts: []ast.Expr{&ast.KeyValueExpr{Key: ast.NewIdent("Send"), Value: ast.NewIdent(send)}, &ast.KeyValueExpr{Key: ast.NewIdent("Ch"), Value: ch}}})
			clauses = append(clauses, &ast.CaseClause{List: []ast.Expr{&ast.BasicLit{Kind: token.INT, Value: fmt.Sprint(idx)}}, Body: append(pre, body...)})
			idx++
		}
		if !hasDefault {
			// Select never returns -1 without a default clause
		}
		hd := "false"
		if hasDefault {
			hd = "true"
		}
		sel := &ast.CallExpr{Fun: &ast.SelectorExpr{X: ast.NewIdent("vrt"), Sel: ast.NewIdent("Select")}, Args: append([]ast.Expr{ast.NewIdent(hd)}, args...)}
		return []ast.Stmt{&ast.SwitchStmt{Tag: sel, Body: &ast.BlockStmt{List: clauses}}}
	}
	unsupported = append(unsupported, pos(s)+fmt.Sprintf(": statement of type %T", s))
	return []ast.Stmt{s}
}

// rewriteMakes: make(chan T[, n]) -> vrt.Chan(make(chan T, vrt.Cap(n)), n).(chan T)
func rewriteMakes(f *ast.File) {
	done := map[*ast.CallExpr]bool{}
	var fix func(e *ast.Expr)
	fix = func(e *ast.Expr) {
		c, ok := (*e).(*ast.CallExpr)
		if !ok || !isMakeChan(c) || done[c] {
			return
		}
		var n ast.Expr = &ast.BasicLit{Kind: token.INT, Value: "0"}
		if len(c.Args) > 1 {
			n = c.Args[1]
		}
		typ := c.Args[0]
		mk := &ast.CallExpr{Fun: ast.NewIdent("make"), Args: []ast.Expr{typ, &ast.CallExpr{Fun: &ast.SelectorExpr{X: ast.NewIdent("vrt"), Sel: ast.NewIdent("Cap")}, Args: []ast.Expr{n}}}}
		done[mk] = true
		*e = &ast.TypeAssertExpr{X: &ast.CallExpr{Fun: &ast.SelectorExpr{X: ast.NewIdent("vrt"), Sel: ast.NewIdent("Chan")}, Args: []ast.Expr{mk, n}}, Type: typ}
	}
	ast.Inspect(f, func(n ast.Node) bool {
		switch v := n.(type) {
		case *ast.AssignStmt:
			for i := range v.Rhs {
				fix(&v.Rhs[i])
			}
		case *ast.ValueSpec:
			for i := range v.Values {
				fix(&v.Values[i])
			}
		case *ast.CallExpr:
			if !isMakeChan(v) {
				for i := range v.Args {
					fix(&v.Args[i])
				}
			}
		case *ast.ReturnStmt:
			for i := range v.Results {
				fix(&v.Results[i])
			}
		case *ast.KeyValueExpr:
			fix(&v.Value)
		case *ast.CompositeLit:
			for i := range v.Elts {
				fix(&v.Elts[i])
			}
		case *ast.SendStmt:
			fix(&v.Value)
		}
		return true
	})
}

// exits: os.Exit(n) -> vrt.Exit(n); log.Fatal*(…) -> vrt.Fatal(…)
func rewriteExits(f *ast.File) {
	ast.Inspect(f, func(n ast.Node) bool {
		c, ok := n.(*ast.CallExpr)
		if !ok {
			return true
		}
		sel, ok := c.Fun.(*ast.SelectorExpr)
		if !ok {
			return true
		}
		pk, ok := sel.X.(*ast.Ident)
		if !ok {
			return true
		}
		switch {
		case pk.Name == "os" && sel.Sel.Name == "Exit":
			c.Fun = &ast.SelectorExpr{X: ast.NewIdent("vrt"), Sel: ast.NewIdent("Exit")}
		case pk.Name == "log" && (sel.Sel.Name == "Fatal" || sel.Sel.Name == "Fatalln"):
			c.Fun = &ast.SelectorExpr{X: ast.NewIdent("vrt"), Sel: ast.NewIdent("Fatal")}
		}
		return true
	})
}

func main() {
	if len(os.Args) != 3 {
		fmt.Fprintln(os.Stderr, "usage: clirewrite SRC_DIR OUT_DIR")
		os.Exit(2)
	}
	src, out := os.Args[1], os.Args[2]
	os.MkdirAll(out, 0o755)
	old, _ := filepath.Glob(filepath.Join(out, "*"))
	for _, o := range old {
		os.Remove(o)
	}
	names, _ := filepath.Glob(filepath.Join(src, "*.go"))
	sort.Strings(names)
	var files []*ast.File
	var paths []string
	for _, n := range names {
		if strings.HasSuffix(n, "_test.go") {
			continue
		}
		f, err := parser.ParseFile(fset, n, nil, parser.ParseComments)
		if err != nil {
			fmt.Fprintln(os.Stderr, "clirewrite:", err)
			os.Exit(2)
		}
		if f.Name.Name != "main" {
			continue
		}
		files = append(files, f)
		paths = append(paths, n)
	}
	if len(files) == 0 {
		fmt.Fprintln(os.Stderr, "clirewrite: no package main in", src)
		os.Exit(2)
	}
	for _, f := range files {
		collectChanNames(f)
	}
	nResets := 0
	mainSeen := false
	for fi, f := range files {
		var resets []string
		f.Comments = nil // positions of inserted nodes would scramble them
		usesVrt := false
		// imports
		for _, im := range f.Imports {
			if im.Path.Value == `"sync"` {
				im.Path.Value = `"` + vsyncPath + `"`
				if im.Name == nil {
					im.Name = ast.NewIdent("sync")
				}
			}
		}
		rewriteExits(f)
		rewriteMakes(f)
		for _, d := range f.Decls {
			switch v := d.(type) {
			case *ast.FuncDecl:
				if v.Recv == nil && v.Name.Name == "main" {
					v.Name.Name = "verifMain"
					mainSeen = true
				}
				rewriteBlock(v.Body)
			case *ast.GenDecl:
				if v.Tok != token.VAR {
					continue
				}
				for _, sp := range v.Specs {
					vs := sp.(*ast.ValueSpec)
					for _, val := range vs.Values {
						rewriteFuncLits(val)
					}
					for i, nm := range vs.Names {
						if nm.Name == "_" {
							continue
						}
						var b bytes.Buffer
						if len(vs.Values) == len(vs.Names) {
							format.Node(&b, fset, vs.Values[i])
							resets = append(resets, fmt.Sprintf("\t%s = %s", nm.Name, b.String()))
						} else if len(vs.Values) == 0 && vs.Type != nil {
							format.Node(&b, fset, vs.Type)
							resets = append(resets, fmt.Sprintf("\t%s = *new(%s)", nm.Name, b.String()))
						} else {
							unsupported = append(unsupported, pos(vs)+": package-level variables initialised from a multi-value expression")
						}
					}
				}
			}
		}
		var b bytes.Buffer
		if err := format.Node(&b, fset, f); err != nil {
			fmt.Fprintln(os.Stderr, "clirewrite: print:", err)
			os.Exit(2)
		}
		text := b.String()
		usesVrt = strings.Contains(text, "vrt.")
		if usesVrt {
			// add the import textually after the package clause
			i := strings.Index(text, "\nimport")
			if i < 0 {
				i = strings.Index(text, "\n") // after `package main`
				text = text[:i+1] + "\nimport vrt \"" + vrtPath + "\"\n" + text[i+1:]
			} else {
				text = text[:i+1] + "import vrt \"" + vrtPath + "\"\n" + text[i+1:]
			}
		}
		// re-initialisation of this file's package-level variables (same file: its imports are in scope)
		text += fmt.Sprintf("\nfunc verifReset%d() {\n%s\n}\n", fi, strings.Join(resets, "\n"))
		nResets += len(resets)
		os.WriteFile(filepath.Join(out, filepath.Base(paths[fi])), []byte(text), 0o644)
	}
	if !mainSeen {
		unsupported = append(unsupported, "no func main() found")
	}
	var calls []string
	for fi := range files {
		calls = append(calls, fmt.Sprintf("\tverifReset%d()", fi))
	}
	reset := "package main\n\n// verifResetGlobals re-initialises the package-level variables of the tool before every execution.\nfunc verifResetGlobals() {\n" + strings.Join(calls, "\n") + "\n}\n"
	os.WriteFile(filepath.Join(out, "zz_verif_reset.go"), []byte(reset), 0o644)
	if len(unsupported) > 0 {
		os.WriteFile(filepath.Join(out, "UNSUPPORTED"), []byte(strings.Join(unsupported, "\n")+"\n"), 0o644)
	}
	fmt.Printf("clirewrite: %d files, %d channel names, %d package-level variables, %d unsupported constructs\n", len(files), len(chanNames), nResets, len(unsupported))
}
