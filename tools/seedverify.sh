#!/bin/bash
# seedverify.sh <dir with changeN.diff, demoN/> <N> : confirm in a scratch worktree that the change compiles,
# passes the repository's suite, and that the demonstration fails with it and passes without it.
export GOFLAGS=-mod=mod GOPROXY=off GOSUMDB=off GOTOOLCHAIN=local
SRC="$1"; N="$2"
WT=$(mktemp -d /tmp/seedchk.XXXXXX); rmdir "$WT"
git -C /repo worktree add -q --detach "$WT" HEAD || exit 3
cleanup() { git -C /repo worktree remove --force "$WT" >/dev/null 2>&1; rm -rf "$WT"; }
trap cleanup EXIT
mkdir -p "$WT/seed_out"; cp -r "$SRC/demo$N" "$WT/seed_out/demo$N"
RUN=$(grep -v '^\s*$' "$SRC/demo$N/RUN.txt" | grep -v '^#' | tail -1 | sed -E 's#cd /tmp/seed/[A-Z0-9]+ *(&&|;) *##')
cd "$WT"
echo "RUN: $RUN"
( eval "$RUN" ) >"$WT/clean.log" 2>&1; rc_clean=$?
git apply "$SRC/change$N.diff" || { echo "RESULT patch does not apply"; exit 3; }
go build ./... >"$WT/build.log" 2>&1; rc_build=$?
( eval "$RUN" ) >"$WT/mut.log" 2>&1; rc_mut=$?
go test -mod=mod -vet=off -count=1 $(go list ./... | grep -v seed_out | grep -v seeddemo) >"$WT/suite.log" 2>&1; rc_suite=$?
echo "RESULT demo_clean_rc=$rc_clean build_rc=$rc_build demo_with_change_rc=$rc_mut suite_rc=$rc_suite"
grep -v "^ok\|no test files" "$WT/suite.log" | head -5
if [ $rc_clean -eq 0 ] && [ $rc_build -eq 0 ] && [ $rc_mut -ne 0 ] && [ $rc_suite -eq 0 ]; then echo "VERIFIED"; else echo "NOT-VERIFIED"; tail -5 "$WT/clean.log"; fi
