#!/bin/bash
# withpatch.sh <patch-file> <cmd...> : apply a patch to /repo, run cmd from /verif, always revert.
P="$1"; shift
cd /repo && git apply "$P" || { echo "patch does not apply"; exit 3; }
cd /verif && "$@"; rc=$?
git -C /repo checkout -- . && git -C /repo clean -fdq
exit $rc
