#!/bin/bash
# Offline setup: builds goyacc, the automata and the checker once so that later runs start warm.
set -e
cd "$(dirname "$0")"
export GOFLAGS=-mod=mod GOPROXY=off GOSUMDB=off GOTOOLCHAIN=local
mkdir -p .build evidence replays
./check.sh C18 quick >/dev/null
echo setup ok
