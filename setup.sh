#!/bin/bash
# Offline setup: builds goyacc, the automata and the checker once so that later runs start warm.
set -e
cd "$(dirname "$0")"
export GOFLAGS=-mod=mod GOPROXY=off GOSUMDB=off GOTOOLCHAIN=local
mkdir -p .build evidence replays
./check.sh C18 quick >/dev/null
./tools/clibuild.sh >/dev/null 2>&1 || true
# warm the -race build used by C11
(cd mc && go build -race -overlay ../.build/overlay.json -o ../.build/check-race ./cmd/check) >/dev/null 2>&1 || true
echo setup ok
