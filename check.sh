#!/bin/bash
# check.sh <Cxx> [quick|thorough] [--replay file]
# Rebuilds everything from /repo's current working tree (overlay hooks, node kinds, LALR automata), then runs the check.
set -u
export GOFLAGS=-mod=mod GOPROXY=off GOSUMDB=off GOTOOLCHAIN=local GONOSUMDB='*' GONOSUMCHECK=1 GOFLAGS=-mod=mod
export VERIF_DIR="${VERIF_DIR:-/verif}" REPO="${REPO:-/repo}"
V="$VERIF_DIR"; B="$V/.build"; MC="$V/mc"
ID="${1:?usage: check.sh <id> [quick|thorough]}"; shift
TIER="${VERIF_TIER:-quick}"
if [ "${1:-}" = quick ] || [ "${1:-}" = thorough ]; then TIER="$1"; shift; fi
mkdir -p "$B" "$V/evidence"

# one build at a time (several checks may be started in parallel)
exec 9>"$B/.lock"
flock 9
fail() { echo "HARNESS-ERROR: $*" >&2; exit 2; }

python3 "$V/tools/prep.py" "$REPO" "$B" "$MC" >"$B/prep.log" 2>&1 || { cat "$B/prep.log" >&2; fail "prep failed"; }
cp "$REPO/go.sum" "$MC/go.sum" 2>/dev/null || true

# goyacc (vendored source) and the automata of the current grammars
if [ ! -x "$B/goyacc" ] || [ "$V/third_party/goyacc/yacc.go" -nt "$B/goyacc" ]; then
  (cd "$V/third_party/goyacc" && GOFLAGS=-mod=mod go build -o "$B/goyacc" . ) >"$B/goyacc.log" 2>&1 || { cat "$B/goyacc.log" >&2; fail "goyacc build failed"; }
fi
for fam in php5 php7; do
  y="$REPO/internal/$fam/$fam.y"
  sum=$(sha1sum "$y" | cut -d' ' -f1)
  if [ ! -f "$B/$fam.y.output" ] || [ "$(cat "$B/$fam.sum" 2>/dev/null)" != "$sum" ]; then
    mkdir -p "$B/yy-$fam"
    rm -f "$B/$fam.note"
    if ! (cd "$B/yy-$fam" && "$B/goyacc" -l -o "$B/yy-$fam/$fam.go" -v "$B/$fam.y.output" "$y") >"$B/goyacc-$fam.log" 2>&1; then
      # the working-tree grammar is not something goyacc accepts (a hand-edited .y next to a hand-edited .go): the automaton
      # that generates the sentences is taken from the last committed grammar; every verdict still comes from the compiled parser
      git -C "$REPO" show "HEAD:internal/$fam/$fam.y" >"$B/yy-$fam/head.y" 2>/dev/null || { cat "$B/goyacc-$fam.log" >&2; fail "goyacc failed on $fam.y"; }
      (cd "$B/yy-$fam" && "$B/goyacc" -l -o "$B/yy-$fam/$fam.go" -v "$B/$fam.y.output" "$B/yy-$fam/head.y") >>"$B/goyacc-$fam.log" 2>&1 || { cat "$B/goyacc-$fam.log" >&2; fail "goyacc failed on $fam.y and on the committed $fam.y"; }
      echo "goyacc rejects the working-tree internal/$fam/$fam.y ($(head -1 "$B/goyacc-$fam.log")); sentences are generated from the automaton of the committed grammar" >"$B/$fam.note"
    fi
    echo "$sum" >"$B/$fam.sum"
  fi
done

# the rewritten command-line tool for the schedule exploration of C02 C06 C11 C16 (a tool that cannot be rewritten is skipped with a note)
case "$ID" in C02|C06|C11|C14|C16) "$V/tools/clibuild.sh" ;; esac

(cd "$MC" && go build -overlay "$B/overlay.json" -o "$B/check" ./cmd/check) >"$B/build.log" 2>&1 || { cat "$B/build.log" >&2; fail "go build failed (the tree may not compile)"; }
if [ "$ID" = C11 ] || [ "$ID" = C18 ]; then
  # free-running pass of C11 under the race detector (complements the scheduler exploration)
  if (cd "$MC" && go build -race -overlay "$B/overlay.json" -o "$B/check-race" ./cmd/check) >"$B/build-race.log" 2>&1; then
    cp "$B/check-race" "$B/check-race.$$"; export VERIF_RACE_BIN="$B/check-race.$$"
  else
    echo "note: -race build failed; race pass skipped" >&2; cat "$B/build-race.log" >&2
  fi
fi
# private copy of the binary so that a concurrent rebuild cannot disturb a running check
BIN="$B/check.$$"; cp "$B/check" "$BIN"
flock -u 9
trap 'rm -f "$BIN" "$B/check-race.$$"' EXIT
"$BIN" "$ID" --tier "$TIER" "$@"
